package time

// C18 (RFC 3339 parsing) and C19 (logical date / timestamp types).

import (
	"time"
	"unsafe"

	"github.com/philpearl/avro"
)

func init() { RegisterCodecs() }

// ---------------------------------------------------------------- C19

func verifTimeCodec(typ, logical string) avro.Codec {
	s := avro.Schema{Type: typ}
	if logical != "" {
		s.Object = &avro.SchemaObject{LogicalType: logical}
	}
	c, err := buildTimeCodec(s, nil, false)
	verifAssume(err == nil)
	return c
}

// date: every int32 day count decodes to midnight UTC of 1970-01-01 + d days.
func verifHarness_C19_date_read() {
	d := verifNondetI32("days")
	c := verifTimeCodec("int", "date")
	var g struct {
		G0 [2]byte
		T  time.Time
		G1 [2]byte
	}
	g.G0, g.G1 = [2]byte{0xA5, 0x5A}, [2]byte{0xA5, 0x5A}
	r := avro.NewReadBuf(refZZ(int64(d)))
	err := c.Read(r, unsafe.Pointer(&g.T))
	verifAssert(err == nil, "C19:date-read-ok")
	if err == nil {
		want := time.Date(1970, 1, 1+int(d), 0, 0, 0, 0, time.UTC)
		verifAssert(g.T.Equal(want), "C19:date-decodes-to-epoch-plus-days")
		_, off := g.T.Zone()
		verifAssert(off == 0, "C19:date-is-utc")
		verifAssert(r.Len() == 0, "C19:date-read-consumes-all")
		verifObserveI64("unix", g.T.Unix())
	}
	verifAssert(g.G0 == [2]byte{0xA5, 0x5A} && g.G1 == [2]byte{0xA5, 0x5A}, "C19:date-guards-intact")
	verifReach("end")
}

// date write: the stored integer is the day containing the instant (floor,
// also before 1970), and reading it back gives that day's midnight.
func verifHarness_C19_date_write() {
	sec := verifNondetI64("sec")
	nsec := verifNondetI64("nsec")
	verifAssume(sec >= -verifC19SecRange() && sec <= verifC19SecRange())
	verifAssume(nsec >= 0 && nsec < 1000000000)
	t := time.Unix(sec, nsec).In(verifAnyZone())
	c := verifTimeCodec("int", "date")
	w := avro.NewWriteBuf(nil)
	c.Write(w, unsafe.Pointer(&t))
	n, used, ok := refReadLong(w.Bytes(), 0)
	verifAssert(ok && used == len(w.Bytes()), "C19:date-write-is-one-int")
	if ok {
		verifAssert(n*86400 <= sec && sec < (n+1)*86400, "C19:date-write-stores-the-day-of-the-instant")
		var back time.Time
		err := c.Read(avro.NewReadBuf(w.Bytes()), unsafe.Pointer(&back))
		verifAssert(err == nil, "C19:date-read-back-ok")
		if err == nil {
			verifAssert(back.Unix() == n*86400 && back.Nanosecond() == 0, "C19:date-round-trip-is-midnight-of-that-day")
		}
		verifObserveI64("day", n)
	}
	verifReach("end")
}

// verifAnyZone: UTC, or a fixed zone with an arbitrary offset of up to 14 hours
// either way (the instant, not its presentation, is what is stored).
func verifAnyZone() *time.Location {
	if verifChoice("zone", 2) == 0 {
		return time.UTC
	}
	off := verifNondetI32("zoneoff")
	verifAssume(verifAnd(off >= -50400, off <= 50400))
	return time.FixedZone("", int(off))
}

// seconds either side of the epoch covered by the write-direction harnesses
// (the multiplications and divisions by 86400 / 10^k are bit-blasted; wider
// ranges time out and are reported as a reduced bound, see DESIGN.md)
func verifC19SecRange() int64 {
	if verifThorough() {
		return 1 << 32
	}
	return 1 << 24
}

func verifUnit(k int) (logical string, nsPerUnit int64) {
	switch k {
	case 0:
		return "timestamp-millis", 1000000
	case 1:
		return "timestamp-micros", 1000
	}
	return "", 1
}

// long read: the stored integer times the unit is the instant, for every long
// whose instant fits int64 nanoseconds, including negative ones.
func verifHarness_C19_long_read() {
	logical, unit := verifUnit(verifChoice("unit", 3))
	l := verifNondetI64("l")
	lim := int64(9223372036854775807) / unit
	verifAssume(l >= -lim && l <= lim)
	c := verifTimeCodec("long", logical)
	var g struct {
		G0 [2]byte
		T  time.Time
		G1 [2]byte
	}
	g.G0, g.G1 = [2]byte{0xA5, 0x5A}, [2]byte{0xA5, 0x5A}
	r := avro.NewReadBuf(refZZ(l))
	err := c.Read(r, unsafe.Pointer(&g.T))
	verifAssert(err == nil, "C19:long-read-ok")
	if err == nil {
		verifAssert(g.T.UnixNano() == l*unit, "C19:long-decodes-to-value-times-unit")
		ns := g.T.Nanosecond()
		verifAssert(ns >= 0 && ns < 1000000000, "C19:long-decoded-time-is-normalised")
		_, off := g.T.Zone()
		verifAssert(off == 0, "C19:long-is-utc")
		verifAssert(r.Len() == 0, "C19:long-read-consumes-all")
		verifObserveI64("unixnano", g.T.UnixNano())
	}
	verifAssert(g.G0 == [2]byte{0xA5, 0x5A} && g.G1 == [2]byte{0xA5, 0x5A}, "C19:long-guards-intact")
	verifReach("end")
}

// long write: the integer stored is the instant in the logical type's unit
// (floor), and it decodes back to the instant at that resolution.
func verifHarness_C19_long_write() {
	logical, unit := verifUnit(verifChoice("unit", 3))
	sec := verifNondetI64("sec")
	nsec := verifNondetI64("nsec")
	verifAssume(sec >= -verifC19SecRange() && sec <= verifC19SecRange())
	verifAssume(nsec >= 0 && nsec < 1000000000)
	t := time.Unix(sec, nsec).In(verifAnyZone())
	c := verifTimeCodec("long", logical)
	w := avro.NewWriteBuf(nil)
	c.Write(w, unsafe.Pointer(&t))
	n, used, ok := refReadLong(w.Bytes(), 0)
	verifAssert(ok && used == len(w.Bytes()), "C19:long-write-is-one-long")
	if ok {
		perSec := 1000000000 / unit
		verifAssert(n == sec*perSec+nsec/unit, "C19:long-write-stores-the-instant-in-the-logical-unit")
		// Round trip: Write stores n = floor(instant / unit) (asserted above for
		// every instant in range) and C19_long_read shows that every n decodes
		// to exactly n*unit, hence Read(Write(t)) = t floored to the unit. The
		// direct query (two multiplications by 10^9 under a zig-zag) does not
		// finish in any of the three solvers and is replaced by this
		// composition; here only "reads back without error" is asserted.
		var back time.Time
		err := c.Read(avro.NewReadBuf(w.Bytes()), unsafe.Pointer(&back))
		verifAssert(err == nil, "C19:long-read-back-ok")
		verifObserveI64("stored", n)
	}
	verifReach("end")
}

// ---------------------------------------------------------------- C18

func verifC18MaxLen() int { return 40 }

// Every string up to 40 bytes, fed through the public path
// (StringCodec.Read): a time or an error, never a panic (implicit check), and
// nothing outside the destination is written.
func verifHarness_C18_nopanic() {
	verifUnwind(48)
	n := verifChoice("len", verifC18MaxLen()+1)
	s := verifString("s", n)
	var g struct {
		G0 [2]byte
		T  time.Time
		G1 [2]byte
	}
	g.G0, g.G1 = [2]byte{0xA5, 0x5A}, [2]byte{0xA5, 0x5A}
	buf := append(refZZ(int64(n)), s...)
	r := avro.NewReadBuf(buf)
	err := StringCodec{}.Read(r, unsafe.Pointer(&g.T))
	verifObserveBool("err", err != nil)
	verifAssert(g.G0 == [2]byte{0xA5, 0x5A} && g.G1 == [2]byte{0xA5, 0x5A}, "C18:guards-intact")
	verifReach("end")
}

// verifDigits appends k symbolic ASCII digits and returns their values.
func verifDigits(buf []byte, tag string, k int) ([]byte, []int) {
	ds := verifBytes(tag, k)
	vals := make([]int, k)
	for i := 0; i < k; i++ {
		verifAssume(verifAnd(ds[i] >= '0', ds[i] <= '9'))
		vals[i] = int(ds[i] - '0')
	}
	return append(buf, ds...), vals
}

func verifC18MaxFraction() int {
	if verifThorough() {
		return 18
	}
	return 14
}

// Every string of the RFC 3339 grammar that time.Parse accepts (any fraction
// length up to the bound, '.' or ',', 'Z' or a numeric offset) and every
// YYYY-MM-DD date: the parser returns the instant and offset the standard
// library returns. The string is built from the grammar with every digit a
// solver variable; field ranges are those time.Parse accepts (29 February is
// left out).
func verifHarness_C18_valid() {
	verifUnwind(48)
	var s []byte
	var y, mo, d, h, mi, sec []int
	s, y = verifDigits(s, "year", 4)
	s = append(s, '-')
	s, mo = verifDigits(s, "month", 2)
	s = append(s, '-')
	s, d = verifDigits(s, "day", 2)
	year := y[0]*1000 + y[1]*100 + y[2]*10 + y[3]
	month := mo[0]*10 + mo[1]
	day := d[0]*10 + d[1]
	verifAssume(verifAnd(month >= 1, month <= 12))
	long := verifOr(verifOr(verifOr(month == 1, month == 3), verifOr(month == 5, month == 7)), verifOr(verifOr(month == 8, month == 10), month == 12))
	verifAssume(verifAnd(day >= 1, verifOr(day <= 28, verifOr(verifAnd(day <= 30, month != 2), verifAnd(day == 31, long)))))
	var hour, min, second, nsec, off int
	dateOnly := verifChoice("dateonly", 2) == 1
	if !dateOnly {
		s = append(s, 'T')
		s, h = verifDigits(s, "hour", 2)
		s = append(s, ':')
		s, mi = verifDigits(s, "min", 2)
		s = append(s, ':')
		s, sec = verifDigits(s, "sec", 2)
		hour, min, second = h[0]*10+h[1], mi[0]*10+mi[1], sec[0]*10+sec[1]
		verifAssume(verifAnd(hour <= 23, verifAnd(min <= 59, second <= 59)))
		nf := verifChoice("fraction", verifC18MaxFraction()+1)
		if nf > 0 {
			if verifChoice("comma", 2) == 1 {
				s = append(s, ',')
			} else {
				s = append(s, '.')
			}
			var fd []int
			s, fd = verifDigits(s, "frac", nf)
			// the first nine digits, read as a nine-digit number, are the
			// nanoseconds; further digits are truncated
			for i := 0; i < 9; i++ {
				nsec *= 10
				if i < nf {
					nsec += fd[i]
				}
			}
		}
		switch verifChoice("zone", 3) {
		case 0:
			s = append(s, 'Z')
		default:
			neg := verifChoice("zonesign", 2) == 1
			if neg {
				s = append(s, '-')
			} else {
				s = append(s, '+')
			}
			var zh, zm []int
			s, zh = verifDigits(s, "zh", 2)
			s = append(s, ':')
			s, zm = verifDigits(s, "zm", 2)
			verifAssume(verifAnd(zh[0]*10+zh[1] <= 23, zm[0]*10+zm[1] <= 59))
			off = (zh[0]*10+zh[1])*60*60 + (zm[0]*10+zm[1])*60
			if neg {
				off = -off
			}
		}
	}
	var g struct {
		G0 [2]byte
		T  time.Time
		G1 [2]byte
	}
	g.G0, g.G1 = [2]byte{0xA5, 0x5A}, [2]byte{0xA5, 0x5A}
	buf := append(refZZ(int64(len(s))), s...)
	r := avro.NewReadBuf(buf)
	err := StringCodec{}.Read(r, unsafe.Pointer(&g.T))
	loc := time.UTC
	if off != 0 {
		loc = time.FixedZone("", off)
	}
	want := time.Date(year, time.Month(month), day, hour, min, second, nsec, loc)
	if !verifSymbolic() {
		// oracle validation (native replay only): the grammar is inside what
		// time.Parse accepts, with the fields the harness computed
		layout := time.RFC3339
		if dateOnly {
			layout = "2006-01-02"
		}
		std, perr := time.Parse(layout, string(s))
		_, soff := std.Zone()
		verifAssert(perr == nil && std.Equal(want) && soff == off, "REF:harness-grammar-agrees-with-time.Parse")
	}
	verifAssert(err == nil, "C18:valid-rfc3339-is-accepted")
	if err == nil {
		verifAssert(g.T.Equal(want), "C18:same-instant-as-the-standard-library")
		_, goff := g.T.Zone()
		verifAssert(goff == off, "C18:same-utc-offset-as-the-standard-library")
		verifAssert(r.Len() == 0, "C18:consumes-the-whole-field")
		// (the Unix second is not observed: it depends on the uninterpreted
		// days(year, month) of the time model, which a solver model assigns freely)
		verifObserveInt("nsec", g.T.Nanosecond())
		verifObserveInt("off", goff)
	}
	verifAssert(g.G0 == [2]byte{0xA5, 0x5A} && g.G1 == [2]byte{0xA5, 0x5A}, "C18:guards-intact")
	verifReach("end")
}

// ---------------------------------------------------------------- C12 (timezone cache)

// Parsing a timestamp with an arbitrary numeric zone offset touches the
// shared timezone cache only under its lock, whether or not that zone is
// already cached, and returns what it returns alone.
func verifHarness_C12_parse_timezone() {
	if verifChoice("zone-already-cached", 2) == 1 {
		getTimezone(3600)
	}
	var s []byte
	s = append(s, "2006-01-02T15:04:05"...)
	neg := verifChoice("sign", 2) == 1
	if neg {
		s = append(s, '-')
	} else {
		s = append(s, '+')
	}
	var zh, zm []int
	s, zh = verifDigits(s, "zh", 2)
	s = append(s, ':')
	s, zm = verifDigits(s, "zm", 2)
	verifAssume(verifAnd(zh[0]*10+zh[1] <= 23, zm[0]*10+zm[1] <= 59))
	off := (zh[0]*10+zh[1])*60*60 + (zm[0]*10+zm[1])*60
	if neg {
		off = -off
	}
	in := string(s)
	// a second, different zone parsed at the same time
	other := "2006-01-02T15:04:05+11:45"
	verifConcurrently(func() {
		t, err := parseTime(in)
		verifAssert(err == nil, "C12:parse-ok")
		if err == nil {
			_, goff := t.Zone()
			verifAssert(goff == off, "C12:parse-result-as-when-running-alone")
		}
		_, _ = parseTime(other)
	})
	verifReach("end")
}

// ---------------------------------------------------------------- time model validation

// The engine's calendar arithmetic (engine/timecal.go) against the real
// standard library: a table of boundary dates is pushed through time.Date and
// the accessors, and every observed value is compared with the native run
// (translator validation); for an arbitrary instant the solver shows that
// Date() / Clock() invert time.Date.
func verifHarness_C19_calendar_model() {
	type ymd struct{ y, m, d int }
	cases := []ymd{
		{1970, 1, 1}, {1969, 12, 31}, {2000, 2, 29}, {1900, 2, 28}, {1900, 3, 1}, {2100, 2, 28}, {2024, 12, 31},
		{1, 1, 1}, {0, 1, 30}, {0, 2, 29}, {0, 3, 1}, {-1, 12, 31}, {-400, 2, 29}, {9999, 12, 31}, {1677, 9, 21}, {2262, 4, 11},
		{2021, 13, 1}, {2021, 0, 1}, {2021, -11, 15}, {2021, 25, 31}, {2020, 2, 30}, {2019, 1, 0}, {1600, 1, 1}, {1582, 10, 15},
	}
	k := verifChoice("case", len(cases)+1)
	if k < len(cases) {
		c := cases[k]
		off := []int{0, 3600, -18000, 50400}[verifChoice("off", 4)]
		loc := time.UTC
		if off != 0 {
			loc = time.FixedZone("", off)
		}
		t := time.Date(c.y, time.Month(c.m), c.d, 23, 59, 58, 7, loc)
		y, m, d := t.Date()
		h, mi, s := t.Clock()
		verifObserveI64("unix", t.Unix())
		verifObserveInt("y", y)
		verifObserveInt("m", int(m))
		verifObserveInt("d", d)
		verifObserveInt("yday", t.YearDay())
		verifObserveInt("wday", int(t.Weekday()))
		verifObserveInt("h", h)
		verifObserveInt("mi", mi)
		verifObserveInt("s", s)
		u := t.UTC()
		verifObserveInt("utc-day", u.Day())
		verifObserveInt("utc-hour", u.Hour())
		verifObserveInt("year", t.Year())
		a := t.AddDate(0, 1, 1).Add(36 * time.Hour)
		verifObserveI64("adddate", a.Unix())
		verifObserveBool("before", t.Before(a))
		verifReach("table")
		return
	}
	sec := verifNondetI64("sec")
	verifAssume(sec >= -verifC19SecRange() && sec <= verifC19SecRange())
	t := time.Unix(sec, 5).UTC()
	y, m, d := t.Date()
	h, mi, s := t.Clock()
	// (that Date()/Clock() invert time.Date for every instant is a composition
	// of two division chains no solver here decides within the cap; the values
	// below are compared with the native run for the solver's sample instead)
	verifObserveInt("year", y)
	verifObserveInt("month", int(m))
	verifObserveInt("day", d)
	verifObserveInt("hms", h*10000+mi*100+s)
	verifObserveInt("yday", t.YearDay())
	verifReach("end")
}

// A time field under a nullable union ([null, long] with each logical type, or
// [null, int date]): the union writer consults the time codec's Omit. Only the
// zero time may be written as null; every other instant the unit can represent
// - including the first and the last seconds int64 nanoseconds reach, in 1677
// and 2262 - is written as the non-null branch holding the value the plain
// codec writes.
func verifHarness_C19_time_in_nullable_union() {
	type rec struct{ T time.Time }
	k := verifChoice("unit", 4)
	fs := avro.Schema{Type: "long"}
	switch k {
	case 0:
		logical, _ := verifUnit(0)
		fs.Object = &avro.SchemaObject{LogicalType: logical}
	case 1:
		logical, _ := verifUnit(1)
		fs.Object = &avro.SchemaObject{LogicalType: logical}
	case 2: // plain long: nanoseconds
	case 3:
		fs = avro.Schema{Type: "int", Object: &avro.SchemaObject{LogicalType: "date"}}
	}
	s := avro.Schema{Type: "record", Object: &avro.SchemaObject{Name: "r", Fields: []avro.SchemaRecordField{
		{Name: "T", Type: avro.Schema{Type: "union", Union: []avro.Schema{{Type: "null"}, fs}}}}}}
	c, err := s.Codec(rec{})
	verifAssume(err == nil)
	// windows of instants: around the epoch, and the two ends of the int64
	// nanosecond range
	base := []int64{0, -9223372036, 9223372036 - (1 << 20)}[verifChoice("window", 3)]
	delta := int64(verifNondetU32("delta") & (1<<20 - 1))
	if base == 0 {
		delta -= 1 << 19
	}
	sec := base + delta
	nsec := verifNondetI64("nsec")
	verifAssume(nsec >= 0 && nsec < 1000000000)
	if base < 0 {
		verifAssume(verifOr(sec > -9223372037, nsec >= 145224192)) // math.MinInt64 ns
	}
	in := rec{T: time.Unix(sec, nsec).UTC()}
	verifAssume(!in.T.IsZero())
	w := avro.NewWriteBuf(nil)
	c.Write(w, unsafe.Pointer(&in))
	b := w.Bytes()
	verifAssert(len(b) >= 2 && b[0] == 2, "C19:non-zero-time-is-written-as-the-non-null-branch")
	if len(b) >= 2 && b[0] == 2 {
		var plain avro.Codec
		if k == 3 {
			plain = verifTimeCodec("int", "date")
		} else {
			lt := ""
			if fs.Object != nil {
				lt = fs.Object.LogicalType
			}
			plain = verifTimeCodec("long", lt)
		}
		w2 := avro.NewWriteBuf(nil)
		plain.Write(w2, unsafe.Pointer(&in.T))
		verifAssert(refBytesEq(b[1:], w2.Bytes()), "C19:union-branch-holds-what-the-plain-codec-writes")
	}
	verifReach("end")
}
