package avro

// Container-level harnesses: C07 (reader delivers declared records, rejects
// damage), C08 (truncation), C09 (encoder block sequence), C16 (write
// failures), C06(b) (malformed containers), C10(2) (no aliasing of buffers).

import (
	"bytes"
	"reflect"
	"compress/flate"
	"encoding/binary"
	"errors"
	"fmt"
	"hash/crc32"
	"io"
	"unsafe"

	"github.com/golang/snappy"
)

// ---------------------------------------------------------------- environment

// verifReader is the Reader handed to ReadFile: a byte slice; the crash point
// of C08 is where the slice ends.
type verifReader struct {
	buf []byte
	pos int
}

func (r *verifReader) Read(p []byte) (int, error) {
	if r.pos >= len(r.buf) {
		return 0, io.EOF
	}
	n := copy(p, r.buf[r.pos:])
	r.pos += n
	return n, nil
}

func (r *verifReader) ReadByte() (byte, error) {
	if r.pos >= len(r.buf) {
		return 0, io.EOF
	}
	b := r.buf[r.pos]
	r.pos++
	return b, nil
}

// verifRecorder is the io.Writer handed to the encoder / file writer. It
// records every chunk it accepts and fails on its failAt-th call.
type verifRecorder struct {
	chunks    [][]byte
	calls     int
	failAt    int // -1: never
	failErr   error
	failed    bool
	afterFail int // writes attempted after the failed one
}

func (w *verifRecorder) Write(p []byte) (int, error) {
	k := w.calls
	w.calls++
	if w.failed {
		w.afterFail++
	}
	if k == w.failAt {
		w.failed = true
		return 0, w.failErr
	}
	w.chunks = append(w.chunks, append([]byte(nil), p...))
	return len(p), nil
}

func (w *verifRecorder) all() []byte {
	var out []byte
	for _, c := range w.chunks {
		out = append(out, c...)
	}
	return out
}

var errVerifWriter = errors.New("verif: injected writer failure")

// a writer error that declares itself temporary (EAGAIN, EINTR, a timeout):
// "any writer error" includes these
type verifTempErr struct{}

func (verifTempErr) Error() string   { return "verif: injected temporary writer failure" }
func (verifTempErr) Temporary() bool { return true }
func (verifTempErr) Timeout() bool   { return true }

func verifWriterErr() error {
	if verifChoice("errkind", 2) == 1 {
		return verifTempErr{}
	}
	return errVerifWriter
}
var errVerifCallback = errors.New("verif: injected callback failure")

type verifRec struct {
	A int64
	B string
}

func verifFillRec(v *verifRec, tag string) {
	v.A = verifNarrow(tag + ".A")
	v.B = verifString(tag+".B", 1)
}

// verifLayouts: record counts per block of the files explored.
func verifLayouts() [][]int {
	l := [][]int{{1}, {2, 1}, {1, 1}, {0, 1}}
	if verifThorough() {
		l = append(l, []int{2, 2}, []int{1, 0, 2}, []int{0}, []int{3})
	}
	return l
}

func verifRecEq(a, b *verifRec) bool {
	return verifAnd(a.A == b.A, verifStrEq(a.B, b.B))
}

func verifCompression(k int) Compression {
	switch k {
	case 0:
		return CompressionNull
	case 1:
		return CompressionDeflate
	}
	return CompressionSnappy
}

// verifFile is a container file laid out by the real FileWriter together with
// the positions the properties talk about.
type verifFile struct {
	data       []byte
	hdrEnd     int
	payloadEnd []int // per block: first offset at which the whole payload is present
	blockEnd   []int // per block: offset after its sync marker
	counts     []int
	recs       [][]verifRec
	sync       [16]byte
}

// verifBuildFile writes nblocks blocks with the given record counts through
// the real FileWriter and the real record codec.
func verifBuildFile(comp Compression, counts []int) *verifFile {
	s, err := SchemaForType(verifRec{})
	verifAssume(err == nil)
	c, err := s.Codec(verifRec{})
	verifAssume(err == nil)
	sb, err := s.Marshal()
	verifAssume(err == nil)
	fw, err := NewFileWriter(sb, comp)
	verifAssume(err == nil)
	f := &verifFile{sync: fw.sync}
	f.data = fw.AppendHeader(nil)
	f.hdrEnd = len(f.data)
	for bi, n := range counts {
		w := NewWriteBuf(nil)
		var recs []verifRec
		for i := 0; i < n; i++ {
			var v verifRec
			verifFillRec(&v, "rec"+string(rune('0'+bi))+string(rune('0'+i)))
			c.Write(w, unsafe.Pointer(&v))
			recs = append(recs, v)
		}
		rec := &verifRecorder{failAt: -1}
		err := fw.WriteBlock(rec, n, w.Bytes())
		verifAssume(err == nil)
		blk := rec.all()
		f.data = append(f.data, blk...)
		f.blockEnd = append(f.blockEnd, len(f.data))
		f.payloadEnd = append(f.payloadEnd, len(f.data)-16)
		f.counts = append(f.counts, n)
		f.recs = append(f.recs, recs)
	}
	return f
}

type verifSink struct {
	got     []verifRec
	failAt  int
	calls   int
	failErr error // nil: errVerifCallback
}

func (k *verifSink) cb(val unsafe.Pointer, rb *ResourceBank) error {
	i := k.calls
	k.calls++
	if i == k.failAt {
		if k.failErr != nil {
			return k.failErr
		}
		return errVerifCallback
	}
	k.got = append(k.got, *(*verifRec)(val))
	return nil
}

// ---------------------------------------------------------------- C07

// An intact file (any codec, 1-2 blocks of 0..2 records) is delivered exactly.
func verifHarness_C07_intact() {
	verifAllocMax(4096)
	comp := verifCompression(verifChoice("codec", 3))
	lay := verifLayouts()
	counts := lay[verifChoice("layout", len(lay))]
	f := verifBuildFile(comp, counts)
	sink := &verifSink{failAt: -1}
	err := ReadFile(&verifReader{buf: f.data}, verifRec{}, sink.cb)
	verifAssert(err == nil, "C07:intact-file-reads-without-error")
	want := 0
	for _, n := range counts {
		want += n
	}
	verifAssert(len(sink.got) == want, "C07:delivers-exactly-the-declared-records")
	k := 0
	ok := true
	for bi := range f.recs {
		for i := range f.recs[bi] {
			if k < len(sink.got) {
				ok = verifAnd(ok, verifRecEq(&f.recs[bi][i], &sink.got[k]))
			}
			k++
		}
	}
	verifAssert(ok, "C07:records-in-file-order-with-their-values")
	verifReach("end")
}

// Any difference in any bit of a block's sync marker is an error.
func verifHarness_C07_sync_damage() {
	verifAllocMax(4096)
	comp := verifCompression(verifChoice("codec", 3))
	counts := [][]int{{1, 1}, {0, 1}, {1, 0}}[verifChoice("layout", 3)] // blocks without records are checked like any other
	f := verifBuildFile(comp, counts)
	which := verifChoice("block", 2)
	bad := verifBytes("badsync", 16)
	differs := false
	for i := 0; i < 16; i++ {
		differs = verifOr(differs, bad[i] != f.sync[i])
	}
	verifAssume(differs)
	copy(f.data[f.blockEnd[which]-16:f.blockEnd[which]], bad)
	sink := &verifSink{failAt: -1}
	err := ReadFile(&verifReader{buf: f.data}, verifRec{}, sink.cb)
	verifAssert(err != nil, "C07:sync-mismatch-is-an-error")
	maxDelivered := 0
	for i := 0; i <= which; i++ {
		maxDelivered += counts[i]
	}
	verifAssert(len(sink.got) <= maxDelivered, "C07:nothing-delivered-after-the-damaged-block")
	verifReach("end")
}

// snappy: a trailer that differs from the CRC of the decompressed data is an error.
func verifHarness_C07_snappy_checksum() {
	verifAllocMax(4096)
	f := verifBuildFile(CompressionSnappy, []int{verifChoice("records", 2)})
	// the four bytes before the sync marker are the big-endian CRC
	p := f.payloadEnd[0]
	bad := verifBytes("badcrc", 4)
	differs := false
	for i := 0; i < 4; i++ {
		differs = verifOr(differs, bad[i] != f.data[p-4+i])
	}
	verifAssume(differs)
	copy(f.data[p-4:p], bad)
	sink := &verifSink{failAt: -1}
	err := ReadFile(&verifReader{buf: f.data}, verifRec{}, sink.cb)
	verifAssert(err != nil, "C07:snappy-checksum-mismatch-is-an-error")
	verifAssert(len(sink.got) == 0, "C07:no-record-delivered-from-a-block-with-bad-checksum")
	verifReach("end")
}

// A block the decompressor rejects is an error (both compressed codecs).
// Under the engine the model decompressor may reject any block, possibly after
// having delivered all or part of the data. Natively the same obligation is
// replayed on real corruptions: every single-bit flip of the compressed block
// that the real decompressor reports must make ReadFile fail.
func verifHarness_C07_decompressor_rejects() {
	verifAllocMax(4096)
	verifNoValidate()
	compk := 1 + verifChoice("codec", 2)
	comp := verifCompression(compk)
	f := verifBuildFile(comp, []int{1})
	if verifSymbolic() {
		verifAllowReject = true
		sink := &verifSink{failAt: -1}
		err := ReadFile(&verifReader{buf: f.data}, verifRec{}, sink.cb)
		if verifRejected {
			verifAssert(err != nil, "C07:decompressor-failure-is-an-error")
			verifAssert(len(sink.got) == 0, "C07:no-record-delivered-from-a-rejected-block")
		}
	} else {
		// locate the compressed payload of the only block
		_, n, _ := refReadLong(f.data, f.hdrEnd)
		_, start, _ := refReadLong(f.data, n)
		end := f.payloadEnd[0]
		for bit := 0; bit < (end-start)*8; bit++ {
			f.data[start+bit/8] ^= 1 << uint(bit%8)
			if verifRealDecompressorRejects(compk, f.data[start:end]) {
				sink := &verifSink{failAt: -1}
				err := ReadFile(&verifReader{buf: f.data}, verifRec{}, sink.cb)
				verifAssert(err != nil, "C07:decompressor-failure-is-an-error")
				verifAssert(len(sink.got) == 0, "C07:no-record-delivered-from-a-rejected-block")
			}
			f.data[start+bit/8] ^= 1 << uint(bit%8)
		}
	}
	verifReach("end")
}

// verifRealDecompressorRejects asks the real decompression libraries (native
// replay only).
func verifRealDecompressorRejects(compk int, c []byte) bool {
	if compk == 1 {
		_, err := io.ReadAll(flate.NewReader(bytes.NewReader(c)))
		return err != nil
	}
	if len(c) < 4 {
		return true
	}
	out, err := snappy.Decode(nil, c[:len(c)-4])
	if err != nil {
		return true
	}
	return crc32.ChecksumIEEE(out) != binary.BigEndian.Uint32(c[len(c)-4:])
}

// header damage
func verifHarness_C07_header() {
	verifAllocMax(4096)
	f := verifBuildFile(CompressionNull, []int{1})
	switch verifChoice("damage", 3) {
	case 0: // wrong magic: any of the four bytes differs
		bad := verifBytes("magic", 4)
		differs := false
		for i := 0; i < 4; i++ {
			differs = verifOr(differs, bad[i] != f.data[i])
		}
		verifAssume(differs)
		copy(f.data[0:4], bad)
		sink := &verifSink{failAt: -1}
		err := ReadFile(&verifReader{buf: f.data}, verifRec{}, sink.cb)
		verifAssert(err != nil, "C07:wrong-magic-is-an-error")
		verifAssert(len(sink.got) == 0, "C07:no-record-delivered-with-wrong-magic")
		verifReach("magic")
	case 1: // unknown codec name
		data := verifHeaderWith([]string{"avro.schema", "avro.codec"}, [][]byte{verifSchemaToken(), []byte("lzma")}, f.sync)
		data = append(data, f.data[f.hdrEnd:]...)
		sink := &verifSink{failAt: -1}
		err := ReadFile(&verifReader{buf: data}, verifRec{}, sink.cb)
		verifAssert(err != nil, "C07:unknown-codec-is-an-error")
		verifAssert(len(sink.got) == 0, "C07:no-record-delivered-with-unknown-codec")
		verifReach("codec")
	case 2: // no schema
		data := verifHeaderWith([]string{"avro.codec"}, [][]byte{[]byte("null")}, f.sync)
		data = append(data, f.data[f.hdrEnd:]...)
		sink := &verifSink{failAt: -1}
		err := ReadFile(&verifReader{buf: data}, verifRec{}, sink.cb)
		verifAssert(err != nil, "C07:missing-schema-is-an-error")
		verifAssert(len(sink.got) == 0, "C07:no-record-delivered-without-schema")
		verifReach("schema")
	}
}

// A header without avro.codec means uncompressed.
func verifHarness_C07_no_codec_entry() {
	verifAllocMax(4096)
	f := verifBuildFile(CompressionNull, []int{2})
	data := verifHeaderWith([]string{"avro.schema"}, [][]byte{verifSchemaToken()}, f.sync)
	data = append(data, f.data[f.hdrEnd:]...)
	sink := &verifSink{failAt: -1}
	err := ReadFile(&verifReader{buf: data}, verifRec{}, sink.cb)
	verifAssert(err == nil, "C07:missing-codec-entry-means-uncompressed")
	verifAssert(len(sink.got) == 2, "C07:missing-codec-entry-delivers-the-records")
	if len(sink.got) == 2 {
		verifAssert(verifAnd(verifRecEq(&sink.got[0], &f.recs[0][0]), verifRecEq(&sink.got[1], &f.recs[0][1])), "C07:missing-codec-entry-values")
	}
	verifReach("end")
}

// A callback error stops reading at that record and is returned unchanged.
func verifHarness_C07_callback_error() {
	verifAllocMax(4096)
	f := verifBuildFile(CompressionNull, []int{2, 1})
	at := verifChoice("failAt", 3)
	// the callback's error is the caller's: it may be, or wrap, an error the
	// reader itself gives a meaning to (io.EOF ends a file)
	var cbErr error
	switch verifChoice("errkind", 4) {
	case 0:
		cbErr = errVerifCallback
	case 1:
		cbErr = io.EOF
	case 2:
		cbErr = io.ErrUnexpectedEOF
	case 3:
		cbErr = fmt.Errorf("callback: %w", io.EOF)
	}
	sink := &verifSink{failAt: at, failErr: cbErr}
	err := ReadFile(&verifReader{buf: f.data}, verifRec{}, sink.cb)
	verifAssert(err == cbErr, "C07:callback-error-returned-unchanged")
	verifAssert(sink.calls == at+1, "C07:no-callback-after-the-failing-one")
	verifAssert(len(sink.got) == at, "C07:records-before-the-failure-were-delivered")
	verifReach("end")
}

// A block that declares more records than its payload holds is damaged: the
// reader must not report success (the count lies outside the compressed
// payload, so neither checksum nor deflate stream protects it).
func verifHarness_C07_count_exceeds_payload() {
	verifAllocMax(4096)
	comp := verifCompression(verifChoice("codec", 3))
	f := verifBuildFile(comp, []int{2, 1})
	// the first block's count is the zig-zag varint 0x04 right after the header
	verifAssume(f.data[f.hdrEnd] == 4)
	f.data[f.hdrEnd] = 6
	sink := &verifSink{failAt: -1}
	err := ReadFile(&verifReader{buf: f.data}, verifRec{}, sink.cb)
	verifAssert(err != nil, "C07:block-declaring-more-records-than-it-holds-is-an-error")
	verifAssert(len(sink.got) <= 2, "C07:no-record-invented-or-taken-from-a-later-block")
	verifReach("end")
}

// verifSchemaToken is the schema of verifRec in the form the JSON stub (or,
// natively, the real JSON library) produces.
func verifSchemaToken() []byte {
	s, err := SchemaForType(verifRec{})
	verifAssume(err == nil)
	b, err := s.Marshal()
	verifAssume(err == nil)
	return b
}

// verifHeaderWith lays a header out by hand (reference writer).
func verifHeaderWith(keys []string, vals [][]byte, sync [16]byte) []byte {
	out := []byte{'O', 'b', 'j', 1}
	out = append(out, refZZ(int64(len(keys)))...)
	for i := range keys {
		out = append(out, refZZ(int64(len(keys[i])))...)
		out = append(out, keys[i]...)
		out = append(out, refZZ(int64(len(vals[i])))...)
		out = append(out, vals[i]...)
	}
	out = append(out, 0)
	return append(out, sync[:]...)
}

// ---------------------------------------------------------------- C08

// Every cut position of a valid file: record prefix + error, success only at
// the end of the header or of a block.
func verifHarness_C08_truncation() {
	verifAllocMax(4096)
	comp := verifCompression(verifChoice("codec", 3))
	lay := [][]int{{1}, {1, 1}, {0, 2}}
	if verifThorough() {
		lay = verifLayouts()
	}
	counts := lay[verifChoice("layout", len(lay))]
	f := verifBuildFile(comp, counts)
	// the crash point, expressed relative to a structural anchor (end of the
	// header or of a block) so that the same choice denotes the same kind of
	// position in the natively built file, whose header and compressed
	// payloads have other lengths
	anchors := append([]int{f.hdrEnd}, f.blockEnd...)
	k := verifChoice("cut.anchor", len(anchors))
	prev := -1
	if k > 0 {
		prev = anchors[k-1]
	}
	back := verifChoice("cut.back", anchors[k]-prev)
	cut := anchors[k] - back
	sink := &verifSink{failAt: -1}
	err := ReadFile(&verifReader{buf: f.data[:cut]}, verifRec{}, sink.cb)
	// which blocks are completely present (payload) / where success is allowed
	want := 0
	clean := cut == f.hdrEnd
	for bi := range counts {
		if cut >= f.payloadEnd[bi] {
			want += counts[bi]
		}
		if cut == f.blockEnd[bi] {
			clean = true
		}
	}
	verifAssert(len(sink.got) == want, "C08:delivers-exactly-the-records-of-complete-blocks")
	k2 := 0
	ok := true
	for bi := range f.recs {
		for i := range f.recs[bi] {
			if k2 < len(sink.got) {
				ok = verifAnd(ok, verifRecEq(&f.recs[bi][i], &sink.got[k2]))
			}
			k2++
		}
	}
	verifAssert(ok, "C08:delivered-records-are-unmodified")
	if clean {
		verifAssert(err == nil, "C08:clean-cut-is-success")
		verifReach("clean")
	} else {
		verifAssert(err != nil, "C08:mid-structure-cut-is-an-error")
		verifReach("dirty")
	}
	verifObserveInt("delivered", len(sink.got))
	verifObserveBool("err", err != nil)
}

// A block whose record count needs a two-byte varint (70 records, concrete
// contents): every cut position, in particular the one inside the count.
func verifHarness_C08_truncation_long_count() {
	verifAllocMax(4096)
	verifUnwind(400)
	// uncompressed only: the real compressors shrink 70 similar records far
	// below the model's length, so cut offsets would not correspond natively
	comp := CompressionNull
	s, err := SchemaForType(verifRec{})
	verifAssume(err == nil)
	c, err := s.Codec(verifRec{})
	verifAssume(err == nil)
	sb, _ := s.Marshal()
	fw, err := NewFileWriter(sb, comp)
	verifAssume(err == nil)
	data := fw.AppendHeader(nil)
	hdrEnd := len(data)
	const n = 70
	w := NewWriteBuf(nil)
	for i := 0; i < n; i++ {
		v := verifRec{A: int64(i), B: "x"}
		c.Write(w, unsafe.Pointer(&v))
	}
	rec := &verifRecorder{failAt: -1}
	verifAssume(fw.WriteBlock(rec, n, w.Bytes()) == nil)
	data = append(data, rec.all()...)
	blockEnd := len(data)
	back := verifChoice("cut.back", blockEnd-hdrEnd+1)
	cut := blockEnd - back
	sink := &verifSink{failAt: -1}
	err = ReadFile(&verifReader{buf: data[:cut]}, verifRec{}, sink.cb)
	want := 0
	if cut >= blockEnd-16 {
		want = n
	}
	verifAssert(len(sink.got) == want, "C08:delivers-exactly-the-records-of-complete-blocks")
	if cut == hdrEnd || cut == blockEnd {
		verifAssert(err == nil, "C08:clean-cut-is-success")
	} else {
		verifAssert(err != nil, "C08:mid-structure-cut-is-an-error")
	}
	verifReach("end")
}

// ---------------------------------------------------------------- C09 / C16

type verifBlock struct {
	count   int64
	payload []byte
}

// refParseBlocks is the reference container-block parser: a sequence of
// varint(count) varint(len) payload sync; ok=false if anything is left over or
// malformed.
func refParseBlocks(data []byte, sync [16]byte) (blocks []verifBlock, ok bool) {
	pos := 0
	for pos < len(data) {
		cnt, n, ok1 := refReadLong(data, pos)
		if !ok1 {
			return blocks, false
		}
		l, n2, ok2 := refReadLong(data, n)
		if !ok2 || l < 0 || n2+int(l)+16 > len(data) {
			return blocks, false
		}
		payload := data[n2 : n2+int(l)]
		for i := 0; i < 16; i++ {
			if data[n2+int(l)+i] != sync[i] {
				return blocks, false
			}
		}
		blocks = append(blocks, verifBlock{cnt, payload})
		pos = n2 + int(l) + 16
	}
	return blocks, true
}

// refDecompress inverts the compressor for the reference parser. Under the
// engine the model compressors are tagged identities; natively the real ones
// run and the payload is compared after real decompression.
func refDecompress(comp Compression, c []byte) ([]byte, bool) {
	return refRawDecompress(comp, c)
}

// A bounded history of encode / flush calls from a fresh encoder: the bytes
// after the header are exactly the blocks the history implies.
func verifHarness_C09_history() {
	verifAllocMax(4096)
	verifUnwind(400)
	compk := verifChoice("codec", 3)
	comp := verifCompression(compk)
	bs := verifC09BlockSize(verifChoice("blocksize", 4)) // both the size-triggered and the flush-triggered path
	rec := &verifRecorder{failAt: -1}
	e, err := NewEncoderFor[verifRec](rec, comp, bs)
	verifAssert(err == nil, "C09:encoder-created")
	if err != nil {
		return
	}
	hdr := len(rec.all())
	sync := e.fw.sync
	s, _ := SchemaForType(verifRec{})
	c, _ := s.Codec(verifRec{})
	nops := 1 + verifChoice("ops", verifC09Ops())
	// the model: pending encodings since the last block
	var pending [][]byte
	var wantBlocks [][][]byte
	pendingLen := 0
	for i := 0; i < nops; i++ {
		if verifChoice("op", 2) == 0 {
			var v verifRec
			verifFillRec(&v, "v"+string(rune('0'+i)))
			w := NewWriteBuf(nil)
			c.Write(w, unsafe.Pointer(&v))
			pending = append(pending, w.Bytes())
			pendingLen += w.Len()
			err := e.Encode(&v)
			verifAssert(err == nil, "C09:encode-ok")
			if pendingLen >= bs {
				wantBlocks = append(wantBlocks, pending)
				pending, pendingLen = nil, 0
			}
		} else {
			err := e.Flush()
			verifAssert(err == nil, "C09:flush-ok")
			if len(pending) > 0 {
				wantBlocks = append(wantBlocks, pending)
				pending, pendingLen = nil, 0
			}
		}
		// after every call: the output so far is exactly the blocks implied so far
		verifCheckBlocks(rec.all()[hdr:], sync, comp, wantBlocks, "C09")
	}
	err = e.Flush()
	verifAssert(err == nil, "C09:final-flush-ok")
	if len(pending) > 0 {
		wantBlocks = append(wantBlocks, pending)
	}
	verifCheckBlocks(rec.all()[hdr:], sync, comp, wantBlocks, "C09")
	verifReach("end")
}

// Records whose encoding is empty (a struct without fields): "records pending"
// and "bytes buffered" are different things. Same history, same model.
func verifHarness_C09_history_empty_records() {
	verifAllocMax(4096)
	verifUnwind(400)
	comp := verifCompression(verifChoice("codec", 3))
	bs := []int{0, 100}[verifChoice("blocksize", 2)]
	rec := &verifRecorder{failAt: -1}
	e, err := NewEncoderFor[struct{}](rec, comp, bs)
	verifAssert(err == nil, "C09:encoder-created")
	if err != nil {
		return
	}
	hdr := len(rec.all())
	sync := e.fw.sync
	nops := 1 + verifChoice("ops", verifC09Ops())
	var pending [][]byte
	var wantBlocks [][][]byte
	for i := 0; i < nops; i++ {
		if verifChoice("op", 2) == 0 {
			pending = append(pending, nil)
			err := e.Encode(&struct{}{})
			verifAssert(err == nil, "C09:encode-ok")
			if 0 >= bs {
				wantBlocks = append(wantBlocks, pending)
				pending = nil
			}
		} else {
			err := e.Flush()
			verifAssert(err == nil, "C09:flush-ok")
			if len(pending) > 0 {
				wantBlocks = append(wantBlocks, pending)
				pending = nil
			}
		}
		verifCheckBlocks(rec.all()[hdr:], sync, comp, wantBlocks, "C09")
	}
	err = e.Flush()
	verifAssert(err == nil, "C09:final-flush-ok")
	if len(pending) > 0 {
		wantBlocks = append(wantBlocks, pending)
	}
	verifCheckBlocks(rec.all()[hdr:], sync, comp, wantBlocks, "C09")
	verifReach("end")
}

// records encode to 3 or 4 bytes: 0 = every record is a block, 4 / 7 = a block
// every one-two / two-three records, 100 = only flush emits
func verifC09BlockSize(k int) int {
	return []int{0, 4, 7, 100}[k]
}

func verifC09Ops() int {
	if verifThorough() {
		return 4
	}
	return 3
}

func verifCheckBlocks(out []byte, sync [16]byte, comp Compression, want [][][]byte, p string) {
	blocks, ok := refParseBlocks(out, sync)
	verifAssert(ok, p+":output-is-a-gap-free-sequence-of-blocks")
	if !ok {
		return
	}
	verifAssert(len(blocks) == len(want), p+":one-block-per-size-trigger-or-flush-and-no-empty-block")
	if len(blocks) != len(want) {
		return
	}
	for i := range blocks {
		verifAssert(blocks[i].count == int64(len(want[i])), p+":block-record-count-is-exact")
		var payload []byte
		for _, r := range want[i] {
			payload = append(payload, r...)
		}
		got, ok := refDecompress(comp, blocks[i].payload)
		verifAssert(ok, p+":block-payload-decompresses")
		if ok {
			verifAssert(refBytesEq(got, payload), p+":block-payload-is-the-records-in-order")
		}
	}
}

// One step from an arbitrary valid encoder state (inductive form of C09): the
// pre-state is any (count, buffered bytes, block size) satisfying the
// encoder's invariant, so histories of any length are covered.
func verifHarness_C09_step() {
	verifAllocMax(4096)
	comp := verifCompression(verifChoice("codec", 3))
	rec := &verifRecorder{failAt: -1}
	e, err := NewEncoderFor[verifRec](rec, comp, 0)
	verifAssume(err == nil)
	hdr := len(rec.all())
	sync := e.fw.sync
	// arbitrary pre-state
	c := verifNondetInt("count")
	verifAssume(c >= 0 && c < 1<<40)
	plen := verifChoice("buffered", 4)
	P := verifBytes("P", plen)
	B := verifNondetInt("blocksize")
	verifAssume(B >= 0)
	// invariant established by NewEncoderFor and preserved by every call:
	// nothing buffered iff count == 0; whatever is buffered is below the block size
	verifAssume((c == 0) == (plen == 0))
	verifAssume(c == 0 || plen < B)
	e.count = c
	e.approxBlockSize = B
	// the buffer's capacity is whatever earlier records left it at
	buf := make([]byte, plen, []int{plen, 600, 5000}[verifChoice("bufcap", 3)])
	copy(buf, P)
	e.wb = NewWriteBuf(buf)
	if verifChoice("op", 2) == 0 {
		var v verifRec
		verifFillRec(&v, "v")
		s, _ := SchemaForType(verifRec{})
		cd, _ := s.Codec(verifRec{})
		w := NewWriteBuf(nil)
		cd.Write(w, unsafe.Pointer(&v))
		enc := w.Bytes()
		err := e.Encode(&v)
		verifAssert(err == nil, "C09:step-encode-ok")
		out := rec.all()[hdr:]
		if plen+len(enc) >= B {
			blocks, ok := refParseBlocks(out, sync)
			verifAssert(ok && len(blocks) == 1, "C09:step-exactly-one-block-when-size-reached")
			if ok && len(blocks) == 1 {
				verifAssert(blocks[0].count == int64(c)+1, "C09:step-block-count-is-pending-plus-one")
				got, ok := refDecompress(comp, blocks[0].payload)
				verifAssert(ok && refBytesEq(got, append(append([]byte(nil), P...), enc...)), "C09:step-block-payload-is-buffer-plus-record")
			}
			verifAssert(e.count == 0 && e.wb.Len() == 0, "C09:step-nothing-pending-after-block")
			verifReach("encode-block")
		} else {
			verifAssert(len(out) == 0, "C09:step-no-output-below-block-size")
			verifAssert(e.count == c+1 && refBytesEq(e.wb.Bytes(), append(append([]byte(nil), P...), enc...)), "C09:step-record-appended-to-pending")
			verifReach("encode-buffer")
		}
	} else {
		err := e.Flush()
		verifAssert(err == nil, "C09:step-flush-ok")
		out := rec.all()[hdr:]
		if c > 0 {
			blocks, ok := refParseBlocks(out, sync)
			verifAssert(ok && len(blocks) == 1, "C09:step-flush-emits-one-block")
			if ok && len(blocks) == 1 {
				verifAssert(blocks[0].count == int64(c), "C09:step-flush-block-count")
				got, ok := refDecompress(comp, blocks[0].payload)
				verifAssert(ok && refBytesEq(got, P), "C09:step-flush-block-payload")
			}
			verifReach("flush-block")
		} else {
			verifAssert(len(out) == 0, "C09:step-no-empty-block")
			verifReach("flush-nothing")
		}
		verifAssert(e.count == 0 && e.wb.Len() == 0, "C09:step-nothing-pending-after-flush")
	}
}

// C16: the writer fails on its k-th write, for every k.
func verifHarness_C16_faults() {
	verifAllocMax(4096)
	verifUnwind(400)
	comp := verifCompression(verifChoice("codec", 3))
	bs := 3 * verifChoice("blocksize", 2) // 0: every record is a block; 3: the first record stays buffered
	// fault-free twin with the same sync marker and the same calls
	good := &verifRecorder{failAt: -1}
	nops := 1 + verifChoice("ops", verifC16Ops())
	// the header is one write, every block four
	bad := &verifRecorder{failAt: verifChoice("failAt", 2+4*nops), failErr: verifWriterErr()}
	ops := make([]int, nops)
	vals := make([]verifRec, nops)
	for i := range ops {
		ops[i] = verifChoice("op", 2)
		if ops[i] == 0 {
			verifFillRec(&vals[i], "v"+string(rune('0'+i)))
		}
	}
	eg, err := NewEncoderFor[verifRec](good, comp, bs)
	verifAssume(err == nil)
	sync := eg.fw.sync
	for i := range ops {
		if ops[i] == 0 {
			verifAssume(eg.Encode(&vals[i]) == nil)
		} else {
			verifAssume(eg.Flush() == nil)
		}
	}
	verifAssume(eg.Flush() == nil)
	full := good.all()

	eb, err := NewEncoderFor[verifRec](bad, comp, bs)
	sawErr := false
	if err != nil {
		verifAssert(bad.failed, "C16:error-only-when-the-writer-failed")
		verifAssert(errors.Is(err, bad.failErr), "C16:error-wraps-the-writer-error")
		sawErr = true
	} else {
		// "a fault-free run with the same sync marker": re-mark the twin's output
		full = verifResync(full, len(good.chunks[0]), sync, eb.fw.sync)
		for i := 0; i <= len(ops) && !sawErr; i++ {
			wasFailed := bad.failed
			var err error
			if i == len(ops) || ops[i] == 1 {
				err = eb.Flush()
			} else {
				err = eb.Encode(&vals[i])
			}
			if bad.failed && !wasFailed {
				verifAssert(err != nil, "C16:call-that-triggered-the-failed-write-returns-an-error")
				if err != nil {
					verifAssert(errors.Is(err, bad.failErr), "C16:error-wraps-the-writer-error")
				}
				sawErr = true
			} else if !bad.failed {
				verifAssert(err == nil, "C16:no-error-without-a-fault")
			}
		}
	}
	verifAssert(bad.afterFail == 0, "C16:no-write-attempted-after-the-failed-one")
	acc := bad.all()
	if bad.failed && err == nil {
		isPrefix := len(acc) <= len(full)
		if isPrefix {
			isPrefix = refBytesEq(acc, full[:len(acc)])
		}
		verifAssert(isPrefix, "C16:accepted-bytes-are-a-prefix-of-the-fault-free-output")
	}
	if bad.failed {
		verifReach("fault")
	} else {
		verifReach("nofault")
	}
}

func verifC16Ops() int {
	if verifThorough() {
		return 3
	}
	return 2
}

// verifResync rewrites every sync marker of a well-formed container (header of
// hdrLen bytes followed by blocks) from one value to another.
func verifResync(full []byte, hdrLen int, from, to [16]byte) []byte {
	out := append([]byte(nil), full...)
	copy(out[hdrLen-16:hdrLen], to[:])
	pos := hdrLen
	for pos < len(out) {
		_, n, ok1 := refReadLong(out, pos)
		if !ok1 {
			break
		}
		l, n2, ok2 := refReadLong(out, n)
		if !ok2 || l < 0 || n2+int(l)+16 > len(out) {
			break
		}
		copy(out[n2+int(l):n2+int(l)+16], to[:])
		pos = n2 + int(l) + 16
	}
	return out
}

// FileWriter used directly: WriteHeader and WriteBlock with a fault at every write index.
func verifHarness_C16_filewriter() {
	verifAllocMax(4096)
	verifUnwind(400)
	comp := verifCompression(verifChoice("codec", 3))
	fw, err := NewFileWriter([]byte("{}"), comp)
	verifAssume(err == nil)
	payload := verifBytes("payload", verifChoice("plen", 3))
	rows := int(verifNarrow("rows"))
	verifAssume(rows >= 0)
	good := &verifRecorder{failAt: -1}
	verifAssume(fw.WriteHeader(good) == nil)
	verifAssume(fw.WriteBlock(good, rows, payload) == nil)
	full := good.all()
	bad := &verifRecorder{failAt: verifChoice("failAt", 5), failErr: verifWriterErr()}
	err = fw.WriteHeader(bad)
	if bad.failed {
		verifAssert(err != nil && errors.Is(err, bad.failErr), "C16:writeheader-returns-the-writer-error")
		verifReach("header-fault")
	} else {
		verifAssert(err == nil, "C16:no-error-without-a-fault")
		err = fw.WriteBlock(bad, rows, payload)
		verifAssert(bad.failed && err != nil && errors.Is(err, bad.failErr), "C16:writeblock-returns-the-writer-error")
		verifReach("block-fault")
	}
	verifAssert(bad.afterFail == 0, "C16:no-write-attempted-after-the-failed-one")
	acc := bad.all()
	verifAssert(len(acc) <= len(full) && refBytesEq(acc, full[:len(acc)]), "C16:accepted-bytes-are-a-prefix-of-the-fault-free-output")
}

// ---------------------------------------------------------------- C06 (b)

// Arbitrary bytes offered as a container file.
func verifHarness_C06_file_arbitrary() {
	n := verifChoice("len", verifC06FileLen()+1)
	buf := verifBytes("buf", n)
	verifUnwind(2*n + 24)
	verifAllocMax(2*n + 16)
	sink := &verifSink{failAt: -1}
	err := ReadFile(&verifReader{buf: buf}, verifRec{}, sink.cb)
	verifObserveBool("err", err != nil)
	verifReach("end")
}

func verifC06FileLen() int {
	if verifThorough() {
		return 12
	}
	return 9
}

// A valid header (each codec variant, and none) followed by arbitrary bytes.
func verifHarness_C06_blocks_arbitrary() {
	k := verifChoice("variant", 5)
	var keys []string
	var vals [][]byte
	tok := verifSchemaToken()
	switch k {
	case 0:
		keys, vals = []string{"avro.schema"}, [][]byte{tok}
	case 1:
		keys, vals = []string{"avro.schema", "avro.codec"}, [][]byte{tok, []byte("null")}
	case 2:
		keys, vals = []string{"avro.schema", "avro.codec"}, [][]byte{tok, []byte("deflate")}
	case 3:
		keys, vals = []string{"avro.schema", "avro.codec"}, [][]byte{tok, []byte("snappy")}
	case 4:
		keys, vals = []string{"avro.codec", "avro.schema"}, [][]byte{[]byte("null"), tok}
	}
	var sync [16]byte
	copy(sync[:], verifBytes("sync", 16))
	data := verifHeaderWith(keys, vals, sync)
	n := verifChoice("len", verifC06BlockLen()+1)
	tail := verifBytes("tail", n)
	data = append(data, tail...)
	verifUnwind(2*n + 40)
	verifAllocMax(2*n + 16)
	sink := &verifSink{failAt: -1}
	err := ReadFile(&verifReader{buf: data}, verifRec{}, sink.cb)
	verifObserveBool("err", err != nil)
	verifReach("end")
}

func verifC06BlockLen() int {
	if verifThorough() {
		return 8
	}
	return 5
}

// ---------------------------------------------------------------- C10 (2)

type verifRec10 struct {
	S string
	B []byte
	P *int64
	L []string
	M map[string]string
}

// Records delivered to the callback do not alias the reader's buffers: after
// more blocks have been decoded (buffers reused) and other banks closed and
// recycled, a retained record still holds what was decoded.
func verifHarness_C10_retained_records() {
	verifAllocMax(4096)
	verifUnwind(600)
	comp := verifCompression(verifChoice("codec", 3))
	s, err := SchemaForType(verifRec10{})
	verifAssume(err == nil)
	c, err := s.Codec(verifRec10{})
	verifAssume(err == nil)
	sb, _ := s.Marshal()
	fw, err := NewFileWriter(sb, comp)
	verifAssume(err == nil)
	data := fw.AppendHeader(nil)
	var want [3]verifRec10
	for bi := 0; bi < 3; bi++ {
		v := &want[bi]
		tag := "r" + string(rune('0'+bi))
		// shapes are fixed (every field non-empty); contents are symbolic; the
		// string is short or longer than 128 bytes (two-byte length prefix)
		v.S = verifString(tag+".S", []int{2, 130}[verifChoice(tag+".S.len", 2)])
		v.B = verifBytes(tag+".B", 2)
		v.P = new(int64)
		*v.P = int64(verifNondetU8(tag + ".P"))
		v.L = append(v.L, verifString(tag+".L", 1))
		v.M = map[string]string{verifString(tag+".Mk", 2): verifString(tag+".Mv", 1)}
		w := NewWriteBuf(nil)
		c.Write(w, unsafe.Pointer(v))
		rec := &verifRecorder{failAt: -1}
		verifAssume(fw.WriteBlock(rec, 1, w.Bytes()) == nil)
		data = append(data, rec.all()...)
	}
	if verifChoice("priorAbortedRead", 2) == 1 {
		// an earlier reader of the same file stopped at its first record: its
		// callback released the bank it was handed and returned its own error
		perr := ReadFile(&verifReader{buf: data}, verifRec10{}, func(val unsafe.Pointer, rb *ResourceBank) error {
			rb.Close()
			return errVerifCallback
		})
		verifAssert(perr == errVerifCallback, "C10:aborted-read-returns-the-callback-error")
	}
	// the owner of one record gives its bank back as soon as the next record
	// arrives: it may be recycled for the record after; the others must be
	// unaffected
	// (3: every record but the first releases its own bank inside its callback
	// while the first record is retained)
	closed := verifChoice("closeBank", 4) - 1 // -1: none, 0: the first, 1: the second, 2: see above
	ownAfterFirst := closed == 2
	if ownAfterFirst {
		closed = -1
	}
	var got []verifRec10
	var banks []*ResourceBank
	var released []bool
	err = ReadFile(&verifReader{buf: data}, verifRec10{}, func(val unsafe.Pointer, rb *ResourceBank) error {
		got = append(got, *(*verifRec10)(val))
		// a bank whose record is still live is not handed out again
		for j, b := range banks {
			if !released[j] {
				verifAssert(b != rb, "C10:bank-of-a-live-record-is-not-handed-out-again")
			}
		}
		banks = append(banks, rb)
		released = append(released, false)
		if closed >= 0 && len(banks) == closed+2 {
			banks[closed].Close()
			released[closed] = true
		}
		if ownAfterFirst && len(banks) > 1 {
			rb.Close()
			released[len(banks)-1] = true
		}
		return nil
	})
	verifAssert(err == nil, "C10:read-ok")
	verifAssert(len(got) == 3, "C10:three-records")
	if err != nil || len(got) != 3 {
		return
	}
	for i := 0; i < 3; i++ {
		if i == closed || (ownAfterFirst && i > 0) {
			continue
		}
		g, w := &got[i], &want[i]
		ok := verifAnd(verifStrEq(g.S, w.S), refBytesEq(g.B, w.B))
		if w.P == nil {
			ok = verifAnd(ok, g.P == nil)
		} else {
			ok = verifAnd(ok, g.P != nil && *g.P == *w.P)
		}
		ok = verifAnd(ok, len(g.L) == len(w.L))
		if len(g.L) == len(w.L) {
			for j := range w.L {
				ok = verifAnd(ok, verifStrEq(g.L[j], w.L[j]))
			}
		}
		ok = verifAnd(ok, len(g.M) == 1)
		for k, mv := range w.M {
			found := false
			for gk, gv := range g.M {
				found = verifOr(found, verifAnd(verifStrEq(gk, k), verifStrEq(gv, mv)))
			}
			ok = verifAnd(ok, found)
		}
		verifAssert(ok, "C10:retained-record-still-holds-its-values")
		if verifSymbolic() {
			// nothing reachable from a delivered record lives in the reader's buffers
			verifAssert(verifTagOf(g.S) != "input" && verifTagOf(g.B) != "input", "C10:no-pointer-into-the-input")
		}
	}
	verifReach("end")
}

// ---------------------------------------------------------------- C01 end to end

// The public path, end to end: NewEncoderFor -> Encode / Flush history ->
// bytes -> ReadFile into the same type: same number of records, same order,
// same values, for every codec, block size and flush pattern in the bound.
func verifHarness_C01_e2e() {
	verifAllocMax(4096)
	verifUnwind(400)
	comp := verifCompression(verifChoice("codec", 3))
	bs := verifC09BlockSize(verifChoice("blocksize", 4))
	rec := &verifRecorder{failAt: -1}
	e, err := NewEncoderFor[verifRec](rec, comp, bs)
	verifAssert(err == nil, "C01:encoder-created")
	if err != nil {
		return
	}
	nops := 1 + verifChoice("ops", verifC09Ops())
	var want []verifRec
	for i := 0; i < nops; i++ {
		if verifChoice("op", 2) == 0 {
			var v verifRec
			verifFillRec(&v, "v"+string(rune('0'+i)))
			want = append(want, v)
			verifAssert(e.Encode(&v) == nil, "C01:encode-ok")
		} else {
			verifAssert(e.Flush() == nil, "C01:flush-ok")
		}
	}
	verifAssert(e.Flush() == nil, "C01:final-flush-ok")
	sink := &verifSink{failAt: -1}
	err = ReadFile(&verifReader{buf: rec.all()}, verifRec{}, sink.cb)
	verifAssert(err == nil, "C01:file-reads-back-without-error")
	verifAssert(len(sink.got) == len(want), "C01:same-number-of-records")
	ok := true
	for i := range want {
		if i < len(sink.got) {
			ok = verifAnd(ok, verifRecEq(&want[i], &sink.got[i]))
		}
	}
	verifAssert(ok, "C01:same-records-in-the-same-order")
	verifReach("end")
}

// ---------------------------------------------------------------- C02 container layout

// refInflate / refUnsnappy: decompression for the reference container parser,
// calling the compression libraries directly (not the library's wrappers).
func refRawDecompress(comp Compression, c []byte) ([]byte, bool) {
	switch comp {
	case CompressionNull:
		return c, true
	case CompressionDeflate:
		fr := flate.NewReader(bytes.NewReader(c))
		var out []byte
		var tmp [8]byte
		for {
			n, err := fr.Read(tmp[:])
			out = append(out, tmp[:n]...)
			if err == io.EOF {
				return out, true
			}
			if err != nil {
				return nil, false
			}
		}
	case CompressionSnappy:
		if len(c) < 4 {
			return nil, false
		}
		out, err := snappy.Decode(nil, c[:len(c)-4])
		if err != nil {
			return nil, false
		}
		return out, crc32.ChecksumIEEE(out) == binary.BigEndian.Uint32(c[len(c)-4:])
	}
	return nil, false
}

// The header and one block written by the real FileWriter, parsed by a
// reference container parser written from the specification.
func verifHarness_C02_container() {
	verifAllocMax(4096)
	verifUnwind(400)
	compk := verifChoice("codec", 3)
	comp := verifCompression(compk)
	schema := verifBytes("schema", verifChoice("schemalen", 3))
	fw, err := NewFileWriter(schema, comp)
	verifAssert(err == nil, "C02:filewriter-created")
	if err != nil {
		return
	}
	rec := &verifRecorder{failAt: -1}
	verifAssert(fw.WriteHeader(rec) == nil, "C02:header-written")
	hdr := rec.all()
	// magic
	verifAssert(len(hdr) >= 4 && hdr[0] == 'O' && hdr[1] == 'b' && hdr[2] == 'j' && hdr[3] == 1, "C02:magic")
	// metadata map: blocks of (count, entries) until a zero count
	pos := 4
	seenSchema, seenCodec, okMeta, entries := false, false, true, 0
	for blocks := 0; blocks < 4 && okMeta; blocks++ {
		cnt, n, ok := refReadLong(hdr, pos)
		if !ok {
			okMeta = false
			break
		}
		pos = n
		if cnt == 0 {
			break
		}
		if cnt < 0 {
			cnt = -cnt
			_, n, ok = refReadLong(hdr, pos)
			if !ok {
				okMeta = false
				break
			}
			pos = n
		}
		for ; cnt > 0 && okMeta; cnt-- {
			kl, n, ok := refReadLong(hdr, pos)
			if !ok || kl < 0 || n+int(kl) > len(hdr) {
				okMeta = false
				break
			}
			key := string(hdr[n : n+int(kl)])
			pos = n + int(kl)
			vl, n2, ok := refReadLong(hdr, pos)
			if !ok || vl < 0 || n2+int(vl) > len(hdr) {
				okMeta = false
				break
			}
			val := hdr[n2 : n2+int(vl)]
			pos = n2 + int(vl)
			entries++
			if key == "avro.schema" {
				seenSchema = true
				verifAssert(refBytesEq(val, schema), "C02:metadata-carries-the-schema-given")
			}
			if key == "avro.codec" {
				seenCodec = true
				verifAssert(string(val) == string(comp), "C02:metadata-carries-the-codec-name")
			}
		}
	}
	verifAssert(okMeta, "C02:metadata-map-is-well-formed")
	verifAssert(seenSchema && seenCodec && entries == 2, "C02:metadata-has-exactly-schema-and-codec")
	verifAssert(okMeta && pos+16 == len(hdr), "C02:header-ends-with-the-16-byte-sync-marker")
	var sync [16]byte
	if okMeta && pos+16 == len(hdr) {
		copy(sync[:], hdr[pos:])
		verifAssert(sync == fw.sync, "C02:header-sync-is-the-writers-sync")
	}
	// one block: exact count, exact byte size, payload, sync
	payload := verifBytes("payload", verifChoice("plen", 4))
	rows := int(verifNarrow("rows"))
	verifAssume(rows >= 0)
	rec2 := &verifRecorder{failAt: -1}
	verifAssert(fw.WriteBlock(rec2, rows, payload) == nil, "C02:block-written")
	blocks, ok := refParseBlocks(rec2.all(), sync)
	verifAssert(ok && len(blocks) == 1, "C02:block-is-count-size-payload-sync-with-nothing-left-over")
	if ok && len(blocks) == 1 {
		verifAssert(blocks[0].count == int64(rows), "C02:block-declares-the-row-count")
		got, ok := refRawDecompress(comp, blocks[0].payload)
		verifAssert(ok, "C02:block-payload-decompresses")
		if ok {
			verifAssert(refBytesEq(got, payload), "C02:block-payload-is-the-data-given")
		}
	}
	verifReach("end")
}

// ---------------------------------------------------------------- C10 (1) bank step

type reflectType = reflect.Type

func verifBankType(k int) reflectType {
	switch k {
	case 0:
		return int64Type
	case 1:
		return stringType
	}
	return boolType
}

// One ResourceBank operation from an arbitrary bank state satisfying the
// representation invariant (len <= cap, array of cap elements of the arena's
// type, size = sizeof(type), string store with len <= cap).
func verifHarness_C10_bank_step() {
	verifAllocMax(4096)
	verifUnwind(600)
	rb := &ResourceBank{}
	nt := verifChoice("arenas", 3)
	type ghost struct {
		arr  unsafe.Pointer
		cap  int
		len  int
		size int
		snap []byte
	}
	var ghosts []ghost
	for i := 0; i < nt; i++ {
		typ := verifBankType(i)
		cp := 16 * verifChoice("cap", 3) // 0, 16, 32
		ln := 0
		if cp > 0 {
			switch verifChoice("len", 4) {
			case 1:
				ln = 1
			case 2:
				ln = cp - 1
			case 3:
				ln = cp
			}
		}
		size := int(typ.Size())
		var arr unsafe.Pointer
		var snap []byte
		if cp > 0 {
			arr = unsafe_NewArray(unpackEFace(typ).data, cp)
			// live allocations hold arbitrary scalar data (int64 arena) or stay
			// zero (string arena: pointer words); free slots hold whatever
			// earlier lives of the bank left there
			if i == 0 {
				snap = verifBytes("live", ln*size)
				copy(unsafe.Slice((*byte)(arr), cp*size), snap)
				if ln < cp {
					copy(unsafe.Slice((*byte)(arr), cp*size)[ln*size:], verifBytes("stale", size))
				}
			}
		}
		rb.types = append(rb.types, resourceType{ptyp: unpackEFace(typ).data, array: arr, cap: cp, len: ln, size: size})
		ghosts = append(ghosts, ghost{arr, cp, ln, size, snap})
	}
	scap := 8 * verifChoice("scap", 2)
	slen := 0
	if scap > 0 {
		slen = []int{0, 1, scap}[verifChoice("slen", 3)]
	}
	if scap > 0 {
		rb.sData = make([]byte, slen, scap)
		copy(rb.sData, verifBytes("sdata", slen))
	}
	liveStr := *(*string)(unsafe.Pointer(&rb.sData)) // a string handed out earlier
	liveCopy := append([]byte(nil), rb.sData...)

	switch verifChoice("op", 3) {
	case 0: // Alloc of a registered or a new type
		k := verifChoice("type", 3)
		typ := verifBankType(k)
		p := rb.Alloc(typ)
		size := int(typ.Size())
		zero := true
		for _, b := range unsafe.Slice((*byte)(p), size) {
			zero = verifAnd(zero, b == 0)
		}
		verifAssert(zero, "C10:allocated-block-is-zeroed")
		// find the arena
		var rt *resourceType
		for i := range rb.types {
			if rb.types[i].ptyp == unpackEFace(typ).data {
				rt = &rb.types[i]
			}
		}
		verifAssert(rt != nil, "C10:arena-exists-after-alloc")
		if rt != nil {
			verifAssert(rt.len >= 1 && rt.len <= rt.cap && rt.size == size, "C10:arena-invariant-after-alloc")
			off := int(uintptr(p) - uintptr(rt.array))
			verifAssert(off == (rt.len-1)*size && off+size <= rt.cap*size, "C10:block-is-the-next-free-slot-of-its-typed-array")
			if k < nt {
				g := ghosts[k]
				if rt.array == g.arr {
					verifAssert(rt.len == g.len+1, "C10:alloc-does-not-overlap-live-allocations")
				}
			}
		}
		// live allocations of every arena are untouched
		for i, g := range ghosts {
			if i == 0 && g.cap > 0 {
				verifAssert(refBytesEq(unsafe.Slice((*byte)(g.arr), g.len*g.size), g.snap), "C10:live-allocations-unchanged-by-alloc")
			}
		}
		verifReach("alloc")
	case 1: // ToString
		b := verifBytes("in", verifChoice("inlen", 4))
		s := rb.ToString(b)
		verifAssert(verifStrEq(s, string(b)), "C10:interned-string-has-the-bytes")
		verifAssert(verifStrEq(liveStr, string(liveCopy)), "C10:earlier-strings-unchanged-by-tostring")
		if verifSymbolic() && len(b) > 0 {
			verifAssert(!verifSameObject(s, b), "C10:interned-string-does-not-alias-the-input")
		}
		verifAssert(len(rb.sData) == slen+len(b), "C10:string-store-grows-by-the-input")
		verifReach("tostring")
	case 2: // Close touches nothing but lengths
		rb.Close()
		for i, g := range ghosts {
			verifAssert(rb.types[i].len == 0 && rb.types[i].cap == g.cap && rb.types[i].array == g.arr, "C10:close-resets-lengths-only")
			if i == 0 && g.cap > 0 {
				verifAssert(refBytesEq(unsafe.Slice((*byte)(g.arr), g.len*g.size), g.snap), "C10:close-does-not-touch-live-memory")
			}
		}
		verifAssert(len(rb.sData) == 0 && verifStrEq(liveStr, string(liveCopy)), "C10:close-does-not-rewrite-strings")
		verifReach("close")
	}
}

// A history of bank operations from a fresh bank: six allocations over four
// types in any order (the bank meets types for the first time, its type table
// grows), then optionally Close and two more. Every block handed out within one
// life of the bank is zeroed, inside an array of its own type and disjoint from
// every other live block; any bookkeeping the bank keeps across calls (caches,
// cursors) has to survive the table growing and the bank being reset.
var verifFloat64Type = reflect.TypeOf(float64(0))

func verifHarness_C10_bank_history() {
	verifAllocMax(4096)
	verifUnwind(200)
	rb := &ResourceBank{}
	typs := []reflectType{int64Type, stringType, boolType, verifFloat64Type}
	type blk struct {
		p    unsafe.Pointer
		size int
	}
	var live []blk
	alloc := func(tag string, k int) {
		typ := typs[k]
		p := rb.Alloc(typ)
		size := int(typ.Size())
		zero := true
		for _, b := range unsafe.Slice((*byte)(p), size) {
			zero = verifAnd(zero, b == 0)
		}
		verifAssert(zero, "C10:allocated-block-is-zeroed")
		for _, o := range live {
			if verifSymbolic() {
				if verifSameObject(p, o.p) {
					d := int(uintptr(p) - uintptr(o.p))
					verifAssert(d >= o.size || -d >= size, "C10:live-blocks-are-disjoint")
				}
			} else {
				a, b := uintptr(p), uintptr(o.p)
				verifAssert(a+uintptr(size) <= b || b+uintptr(o.size) <= a, "C10:live-blocks-are-disjoint")
			}
		}
		// each block carries its own mark (outside the pointer word of a string
		// header); a block handed out twice loses the earlier one
		live = append(live, blk{p, size})
		*(*byte)(unsafe.Add(p, verifMarkOff(size))) = byte(len(live))
	}
	marksIntact := func() bool {
		ok := true
		for i, o := range live {
			ok = verifAnd(ok, *(*byte)(unsafe.Add(o.p, verifMarkOff(o.size))) == byte(i+1))
		}
		return ok
	}
	// the first life: the order of first meetings decides how the table grows
	seq := [][]int{
		{0, 1, 0, 3, 0, 1, 0}, {0, 1, 2, 3, 0, 1, 2}, {1, 1, 0, 0, 3, 3, 2}, {3, 0, 3, 1, 3, 2, 3},
		{0, 0, 0, 1, 0, 2, 0}, {2, 3, 2, 3, 1, 0, 2}, {1, 0, 1, 0, 1, 3, 1}, {0, 3, 1, 2, 2, 1, 3},
	}[verifChoice("order", 8)]
	for i, k := range seq {
		alloc("a"+string(rune('0'+i)), k)
	}
	verifAssert(marksIntact(), "C10:no-block-handed-out-twice-in-one-life")
	if verifChoice("close", 2) == 1 {
		rb.Close()
		live = nil
		for i, k := range seq[:4] {
			alloc("b"+string(rune('0'+i)), k)
		}
		verifAssert(marksIntact(), "C10:no-block-handed-out-twice-in-one-life")
	}
	verifReach("end")
}

func verifMarkOff(size int) int {
	if size >= 16 {
		return 8
	}
	return 0
}

// ---------------------------------------------------------------- C01 record sequences

type verifSeqRec struct {
	P *int64
	S string `json:"s,omitempty"`
	L []int64
	M map[string]int64
	B []byte
	I int64 `json:"i,omitempty"`
}

func verifSeqEq(a, b *verifSeqRec) bool {
	ok := verifAnd((a.P == nil) == (b.P == nil), verifStrEq(a.S, b.S))
	if a.P != nil && b.P != nil {
		ok = verifAnd(ok, *a.P == *b.P)
	}
	ok = verifAnd(ok, len(a.L) == len(b.L) && len(a.M) == len(b.M) && len(a.B) == len(b.B))
	if len(a.L) == len(b.L) {
		for i := range a.L {
			ok = verifAnd(ok, a.L[i] == b.L[i])
		}
	}
	for k, v := range a.M {
		w, found := b.M[k]
		ok = verifAnd(ok, found && v == w)
	}
	if len(a.B) == len(b.B) {
		ok = verifAnd(ok, refBytesEq(a.B, b.B))
	}
	return verifAnd(ok, a.I == b.I)
}

// Two records in one block, read by ReadFile into its reused target: the
// first has every field populated, the second has any mix of nil / empty /
// zero fields (nulls following non-nulls in the same field). Neither record
// may inherit anything from the other.
// one-byte varints: the framing, not the integer width, is the subject here
func verifSmall(tag string) uint8 { return verifNondetU8(tag) & 0x3f }

func verifHarness_C01_sequence() {
	verifAllocMax(4096)
	verifUnwind(400)
	comp := verifCompression(verifChoice("codec", 3))
	s, err := SchemaForType(verifSeqRec{})
	verifAssume(err == nil)
	c, err := s.Codec(verifSeqRec{})
	verifAssume(err == nil)
	sb, err := s.Marshal()
	verifAssume(err == nil)
	fw, err := NewFileWriter(sb, comp)
	verifAssume(err == nil)
	var recs [2]verifSeqRec
	r0 := &recs[0]
	r0.P = new(int64)
	*r0.P = int64(verifSmall("r0.P")) + 1
	r0.S = verifString("r0.S", 1)
	r0.L = []int64{int64(verifSmall("r0.L")), 7}
	r0.M = map[string]int64{"k": int64(verifSmall("r0.M"))}
	r0.B = verifBytes("r0.B", 2)
	r0.I = int64(verifSmall("r0.I")) + 1
	r1 := &recs[1]
	if verifChoice("r1.P", 2) == 1 {
		r1.P = new(int64)
		*r1.P = int64(verifSmall("r1.Pv"))
	}
	r1.S = verifString("r1.S", verifChoice("r1.S.len", 2))
	if verifChoice("r1.L", 2) == 1 {
		r1.L = []int64{int64(verifSmall("r1.Lv"))}
	}
	if verifChoice("r1.M", 2) == 1 {
		r1.M = map[string]int64{"q": int64(verifSmall("r1.Mv"))}
	}
	r1.B = verifBytes("r1.B", verifChoice("r1.B.len", 2))
	if verifChoice("r1.I", 2) == 1 {
		r1.I = int64(verifSmall("r1.Iv"))
	}
	order := verifChoice("order", 2) // populated first, or sparse first
	w := NewWriteBuf(nil)
	c.Write(w, unsafe.Pointer(&recs[order]))
	c.Write(w, unsafe.Pointer(&recs[1-order]))
	rec := &verifRecorder{failAt: -1}
	verifAssume(fw.WriteBlock(rec, 2, w.Bytes()) == nil)
	data := append(fw.AppendHeader(nil), rec.all()...)
	var got []verifSeqRec
	err = ReadFile(&verifReader{buf: data}, verifSeqRec{}, func(val unsafe.Pointer, rb *ResourceBank) error {
		got = append(got, *(*verifSeqRec)(val))
		return nil
	})
	verifAssert(err == nil && len(got) == 2, "C01:two-records-read-back")
	if err == nil && len(got) == 2 {
		verifAssert(verifSeqEq(&recs[order], &got[0]), "C01:first-record-equal-to-the-value-written")
		verifAssert(verifSeqEq(&recs[1-order], &got[1]), "C01:second-record-inherits-nothing-from-the-first")
	}
	verifReach("end")
}
