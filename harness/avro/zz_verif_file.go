package avro

// Container-level harnesses: C07 (reader delivers declared records, rejects
// damage), C08 (truncation), C09 (encoder block sequence), C16 (write
// failures), C06(b) (malformed containers), C10(2) (no aliasing of buffers).

import (
	"bytes"
	"compress/flate"
	"encoding/binary"
	"errors"
	"hash/crc32"
	"io"
	"unsafe"

	"github.com/golang/snappy"
)

// ---------------------------------------------------------------- environment

// verifReader is the Reader handed to ReadFile: a byte slice; the crash point
// of C08 is where the slice ends.
type verifReader struct {
	buf []byte
	pos int
}

func (r *verifReader) Read(p []byte) (int, error) {
	if r.pos >= len(r.buf) {
		return 0, io.EOF
	}
	n := copy(p, r.buf[r.pos:])
	r.pos += n
	return n, nil
}

func (r *verifReader) ReadByte() (byte, error) {
	if r.pos >= len(r.buf) {
		return 0, io.EOF
	}
	b := r.buf[r.pos]
	r.pos++
	return b, nil
}

// verifRecorder is the io.Writer handed to the encoder / file writer. It
// records every chunk it accepts and fails on its failAt-th call.
type verifRecorder struct {
	chunks    [][]byte
	calls     int
	failAt    int // -1: never
	failErr   error
	failed    bool
	afterFail int // writes attempted after the failed one
}

func (w *verifRecorder) Write(p []byte) (int, error) {
	k := w.calls
	w.calls++
	if w.failed {
		w.afterFail++
	}
	if k == w.failAt {
		w.failed = true
		return 0, w.failErr
	}
	w.chunks = append(w.chunks, append([]byte(nil), p...))
	return len(p), nil
}

func (w *verifRecorder) all() []byte {
	var out []byte
	for _, c := range w.chunks {
		out = append(out, c...)
	}
	return out
}

var errVerifWriter = errors.New("verif: injected writer failure")
var errVerifCallback = errors.New("verif: injected callback failure")

type verifRec struct {
	A int64
	B string
}

func verifFillRec(v *verifRec, tag string) {
	v.A = verifNarrow(tag + ".A")
	v.B = verifString(tag+".B", verifChoice(tag+".B.len", 2))
}

func verifRecEq(a, b *verifRec) bool {
	return verifAnd(a.A == b.A, verifStrEq(a.B, b.B))
}

func verifCompression(k int) Compression {
	switch k {
	case 0:
		return CompressionNull
	case 1:
		return CompressionDeflate
	}
	return CompressionSnappy
}

// verifFile is a container file laid out by the real FileWriter together with
// the positions the properties talk about.
type verifFile struct {
	data       []byte
	hdrEnd     int
	payloadEnd []int // per block: first offset at which the whole payload is present
	blockEnd   []int // per block: offset after its sync marker
	counts     []int
	recs       [][]verifRec
	sync       [16]byte
}

// verifBuildFile writes nblocks blocks with the given record counts through
// the real FileWriter and the real record codec.
func verifBuildFile(comp Compression, counts []int) *verifFile {
	s, err := SchemaForType(verifRec{})
	verifAssume(err == nil)
	c, err := s.Codec(verifRec{})
	verifAssume(err == nil)
	sb, err := s.Marshal()
	verifAssume(err == nil)
	fw, err := NewFileWriter(sb, comp)
	verifAssume(err == nil)
	f := &verifFile{sync: fw.sync}
	f.data = fw.AppendHeader(nil)
	f.hdrEnd = len(f.data)
	for bi, n := range counts {
		w := NewWriteBuf(nil)
		var recs []verifRec
		for i := 0; i < n; i++ {
			var v verifRec
			verifFillRec(&v, "rec"+string(rune('0'+bi))+string(rune('0'+i)))
			c.Write(w, unsafe.Pointer(&v))
			recs = append(recs, v)
		}
		rec := &verifRecorder{failAt: -1}
		err := fw.WriteBlock(rec, n, w.Bytes())
		verifAssume(err == nil)
		blk := rec.all()
		f.data = append(f.data, blk...)
		f.blockEnd = append(f.blockEnd, len(f.data))
		f.payloadEnd = append(f.payloadEnd, len(f.data)-16)
		f.counts = append(f.counts, n)
		f.recs = append(f.recs, recs)
	}
	return f
}

type verifSink struct {
	got    []verifRec
	failAt int
	calls  int
}

func (k *verifSink) cb(val unsafe.Pointer, rb *ResourceBank) error {
	i := k.calls
	k.calls++
	if i == k.failAt {
		return errVerifCallback
	}
	k.got = append(k.got, *(*verifRec)(val))
	return nil
}

// ---------------------------------------------------------------- C07

// An intact file (any codec, 1-2 blocks of 0..2 records) is delivered exactly.
func verifHarness_C07_intact() {
	verifAllocMax(4096)
	comp := verifCompression(verifChoice("codec", 3))
	nb := 1 + verifChoice("blocks", 2)
	counts := make([]int, nb)
	for i := range counts {
		counts[i] = verifChoice("count", 3)
	}
	f := verifBuildFile(comp, counts)
	sink := &verifSink{failAt: -1}
	err := ReadFile(&verifReader{buf: f.data}, verifRec{}, sink.cb)
	verifAssert(err == nil, "C07:intact-file-reads-without-error")
	want := 0
	for _, n := range counts {
		want += n
	}
	verifAssert(len(sink.got) == want, "C07:delivers-exactly-the-declared-records")
	k := 0
	ok := true
	for bi := range f.recs {
		for i := range f.recs[bi] {
			if k < len(sink.got) {
				ok = verifAnd(ok, verifRecEq(&f.recs[bi][i], &sink.got[k]))
			}
			k++
		}
	}
	verifAssert(ok, "C07:records-in-file-order-with-their-values")
	verifReach("end")
}

// Any difference in any bit of a block's sync marker is an error.
func verifHarness_C07_sync_damage() {
	verifAllocMax(4096)
	comp := verifCompression(verifChoice("codec", 3))
	f := verifBuildFile(comp, []int{1, 1})
	which := verifChoice("block", 2)
	bad := verifBytes("badsync", 16)
	differs := false
	for i := 0; i < 16; i++ {
		differs = verifOr(differs, bad[i] != f.sync[i])
	}
	verifAssume(differs)
	copy(f.data[f.blockEnd[which]-16:f.blockEnd[which]], bad)
	sink := &verifSink{failAt: -1}
	err := ReadFile(&verifReader{buf: f.data}, verifRec{}, sink.cb)
	verifAssert(err != nil, "C07:sync-mismatch-is-an-error")
	verifAssert(len(sink.got) <= which+1, "C07:nothing-delivered-after-the-damaged-block")
	verifReach("end")
}

// snappy: a trailer that differs from the CRC of the decompressed data is an error.
func verifHarness_C07_snappy_checksum() {
	verifAllocMax(4096)
	f := verifBuildFile(CompressionSnappy, []int{1})
	// the four bytes before the sync marker are the big-endian CRC
	p := f.payloadEnd[0]
	bad := verifBytes("badcrc", 4)
	differs := false
	for i := 0; i < 4; i++ {
		differs = verifOr(differs, bad[i] != f.data[p-4+i])
	}
	verifAssume(differs)
	copy(f.data[p-4:p], bad)
	sink := &verifSink{failAt: -1}
	err := ReadFile(&verifReader{buf: f.data}, verifRec{}, sink.cb)
	verifAssert(err != nil, "C07:snappy-checksum-mismatch-is-an-error")
	verifAssert(len(sink.got) == 0, "C07:no-record-delivered-from-a-block-with-bad-checksum")
	verifReach("end")
}

// A block the decompressor rejects is an error (both compressed codecs).
// Under the engine the model decompressor may reject any block, possibly after
// having delivered all or part of the data. Natively the same obligation is
// replayed on real corruptions: every single-bit flip of the compressed block
// that the real decompressor reports must make ReadFile fail.
func verifHarness_C07_decompressor_rejects() {
	verifAllocMax(4096)
	compk := 1 + verifChoice("codec", 2)
	comp := verifCompression(compk)
	f := verifBuildFile(comp, []int{1})
	if verifSymbolic() {
		verifAllowReject = true
		sink := &verifSink{failAt: -1}
		err := ReadFile(&verifReader{buf: f.data}, verifRec{}, sink.cb)
		if verifRejected {
			verifAssert(err != nil, "C07:decompressor-failure-is-an-error")
			verifAssert(len(sink.got) == 0, "C07:no-record-delivered-from-a-rejected-block")
		}
	} else {
		// locate the compressed payload of the only block
		_, n, _ := refReadLong(f.data, f.hdrEnd)
		_, start, _ := refReadLong(f.data, n)
		end := f.payloadEnd[0]
		for bit := 0; bit < (end-start)*8; bit++ {
			f.data[start+bit/8] ^= 1 << uint(bit%8)
			if verifRealDecompressorRejects(compk, f.data[start:end]) {
				sink := &verifSink{failAt: -1}
				err := ReadFile(&verifReader{buf: f.data}, verifRec{}, sink.cb)
				verifAssert(err != nil, "C07:decompressor-failure-is-an-error")
				verifAssert(len(sink.got) == 0, "C07:no-record-delivered-from-a-rejected-block")
			}
			f.data[start+bit/8] ^= 1 << uint(bit%8)
		}
	}
	verifReach("end")
}

// verifRealDecompressorRejects asks the real decompression libraries (native
// replay only).
func verifRealDecompressorRejects(compk int, c []byte) bool {
	if compk == 1 {
		_, err := io.ReadAll(flate.NewReader(bytes.NewReader(c)))
		return err != nil
	}
	if len(c) < 4 {
		return true
	}
	out, err := snappy.Decode(nil, c[:len(c)-4])
	if err != nil {
		return true
	}
	return crc32.ChecksumIEEE(out) != binary.BigEndian.Uint32(c[len(c)-4:])
}

// header damage
func verifHarness_C07_header() {
	verifAllocMax(4096)
	f := verifBuildFile(CompressionNull, []int{1})
	switch verifChoice("damage", 3) {
	case 0: // wrong magic: any of the four bytes differs
		bad := verifBytes("magic", 4)
		differs := false
		for i := 0; i < 4; i++ {
			differs = verifOr(differs, bad[i] != f.data[i])
		}
		verifAssume(differs)
		copy(f.data[0:4], bad)
		sink := &verifSink{failAt: -1}
		err := ReadFile(&verifReader{buf: f.data}, verifRec{}, sink.cb)
		verifAssert(err != nil, "C07:wrong-magic-is-an-error")
		verifAssert(len(sink.got) == 0, "C07:no-record-delivered-with-wrong-magic")
		verifReach("magic")
	case 1: // unknown codec name
		data := verifHeaderWith([]string{"avro.schema", "avro.codec"}, [][]byte{verifSchemaToken(), []byte("lzma")}, f.sync)
		data = append(data, f.data[f.hdrEnd:]...)
		sink := &verifSink{failAt: -1}
		err := ReadFile(&verifReader{buf: data}, verifRec{}, sink.cb)
		verifAssert(err != nil, "C07:unknown-codec-is-an-error")
		verifAssert(len(sink.got) == 0, "C07:no-record-delivered-with-unknown-codec")
		verifReach("codec")
	case 2: // no schema
		data := verifHeaderWith([]string{"avro.codec"}, [][]byte{[]byte("null")}, f.sync)
		data = append(data, f.data[f.hdrEnd:]...)
		sink := &verifSink{failAt: -1}
		err := ReadFile(&verifReader{buf: data}, verifRec{}, sink.cb)
		verifAssert(err != nil, "C07:missing-schema-is-an-error")
		verifAssert(len(sink.got) == 0, "C07:no-record-delivered-without-schema")
		verifReach("schema")
	}
}

// A header without avro.codec means uncompressed.
func verifHarness_C07_no_codec_entry() {
	verifAllocMax(4096)
	f := verifBuildFile(CompressionNull, []int{2})
	data := verifHeaderWith([]string{"avro.schema"}, [][]byte{verifSchemaToken()}, f.sync)
	data = append(data, f.data[f.hdrEnd:]...)
	sink := &verifSink{failAt: -1}
	err := ReadFile(&verifReader{buf: data}, verifRec{}, sink.cb)
	verifAssert(err == nil, "C07:missing-codec-entry-means-uncompressed")
	verifAssert(len(sink.got) == 2, "C07:missing-codec-entry-delivers-the-records")
	if len(sink.got) == 2 {
		verifAssert(verifAnd(verifRecEq(&sink.got[0], &f.recs[0][0]), verifRecEq(&sink.got[1], &f.recs[0][1])), "C07:missing-codec-entry-values")
	}
	verifReach("end")
}

// A callback error stops reading at that record and is returned unchanged.
func verifHarness_C07_callback_error() {
	verifAllocMax(4096)
	f := verifBuildFile(CompressionNull, []int{2, 1})
	at := verifChoice("failAt", 3)
	sink := &verifSink{failAt: at}
	err := ReadFile(&verifReader{buf: f.data}, verifRec{}, sink.cb)
	verifAssert(err == errVerifCallback, "C07:callback-error-returned-unchanged")
	verifAssert(sink.calls == at+1, "C07:no-callback-after-the-failing-one")
	verifAssert(len(sink.got) == at, "C07:records-before-the-failure-were-delivered")
	verifReach("end")
}

// verifSchemaToken is the schema of verifRec in the form the JSON stub (or,
// natively, the real JSON library) produces.
func verifSchemaToken() []byte {
	s, err := SchemaForType(verifRec{})
	verifAssume(err == nil)
	b, err := s.Marshal()
	verifAssume(err == nil)
	return b
}

// verifHeaderWith lays a header out by hand (reference writer).
func verifHeaderWith(keys []string, vals [][]byte, sync [16]byte) []byte {
	out := []byte{'O', 'b', 'j', 1}
	out = append(out, refZZ(int64(len(keys)))...)
	for i := range keys {
		out = append(out, refZZ(int64(len(keys[i])))...)
		out = append(out, keys[i]...)
		out = append(out, refZZ(int64(len(vals[i])))...)
		out = append(out, vals[i]...)
	}
	out = append(out, 0)
	return append(out, sync[:]...)
}

// ---------------------------------------------------------------- C08

// Every cut position of a valid file: record prefix + error, success only at
// the end of the header or of a block.
func verifHarness_C08_truncation() {
	verifAllocMax(4096)
	comp := verifCompression(verifChoice("codec", 3))
	var counts []int
	if verifChoice("blocks", 2) == 0 {
		counts = []int{1 + verifChoice("count0", 2)}
	} else {
		counts = []int{1, 1 + verifChoice("count1", 2)}
	}
	f := verifBuildFile(comp, counts)
	cut := verifChoice("cut", len(f.data)+1)
	sink := &verifSink{failAt: -1}
	err := ReadFile(&verifReader{buf: f.data[:cut]}, verifRec{}, sink.cb)
	// which blocks are completely present (payload) / where success is allowed
	want := 0
	clean := cut == f.hdrEnd
	for bi := range counts {
		if cut >= f.payloadEnd[bi] {
			want += counts[bi]
		}
		if cut == f.blockEnd[bi] {
			clean = true
		}
	}
	verifAssert(len(sink.got) == want, "C08:delivers-exactly-the-records-of-complete-blocks")
	k := 0
	ok := true
	for bi := range f.recs {
		for i := range f.recs[bi] {
			if k < len(sink.got) {
				ok = verifAnd(ok, verifRecEq(&f.recs[bi][i], &sink.got[k]))
			}
			k++
		}
	}
	verifAssert(ok, "C08:delivered-records-are-unmodified")
	if clean {
		verifAssert(err == nil, "C08:clean-cut-is-success")
		verifReach("clean")
	} else {
		verifAssert(err != nil, "C08:mid-structure-cut-is-an-error")
		verifReach("dirty")
	}
	verifObserveInt("delivered", len(sink.got))
	verifObserveBool("err", err != nil)
}

// ---------------------------------------------------------------- C09 / C16

type verifBlock struct {
	count   int64
	payload []byte
}

// refParseBlocks is the reference container-block parser: a sequence of
// varint(count) varint(len) payload sync; ok=false if anything is left over or
// malformed.
func refParseBlocks(data []byte, sync [16]byte) (blocks []verifBlock, ok bool) {
	pos := 0
	for pos < len(data) {
		cnt, n, ok1 := refReadLong(data, pos)
		if !ok1 {
			return blocks, false
		}
		l, n2, ok2 := refReadLong(data, n)
		if !ok2 || l < 0 || n2+int(l)+16 > len(data) {
			return blocks, false
		}
		payload := data[n2 : n2+int(l)]
		for i := 0; i < 16; i++ {
			if data[n2+int(l)+i] != sync[i] {
				return blocks, false
			}
		}
		blocks = append(blocks, verifBlock{cnt, payload})
		pos = n2 + int(l) + 16
	}
	return blocks, true
}

// refDecompress inverts the compressor for the reference parser. Under the
// engine the model compressors are tagged identities; natively the real ones
// run and the payload is compared after real decompression.
func refDecompress(comp Compression, c []byte) ([]byte, bool) {
	var d compressionCodec
	switch comp {
	case CompressionNull:
		return c, true
	case CompressionDeflate:
		d = &deflate{}
	case CompressionSnappy:
		d = &snappyCodec{}
	}
	out, err := d.decompress(c)
	return append([]byte(nil), out...), err == nil
}

// A bounded history of encode / flush calls from a fresh encoder: the bytes
// after the header are exactly the blocks the history implies.
func verifHarness_C09_history() {
	verifAllocMax(4096)
	compk := verifChoice("codec", 3)
	comp := verifCompression(compk)
	bs := verifChoice("blocksize", 6) // 0..5 bytes: both the size-triggered and the flush-triggered path
	rec := &verifRecorder{failAt: -1}
	e, err := NewEncoderFor[verifRec](rec, comp, bs)
	verifAssert(err == nil, "C09:encoder-created")
	if err != nil {
		return
	}
	hdr := len(rec.all())
	sync := e.fw.sync
	s, _ := SchemaForType(verifRec{})
	c, _ := s.Codec(verifRec{})
	nops := 1 + verifChoice("ops", verifC09Ops())
	// the model: pending encodings since the last block
	var pending [][]byte
	var wantBlocks [][][]byte
	pendingLen := 0
	for i := 0; i < nops; i++ {
		if verifChoice("op", 2) == 0 {
			var v verifRec
			verifFillRec(&v, "v"+string(rune('0'+i)))
			w := NewWriteBuf(nil)
			c.Write(w, unsafe.Pointer(&v))
			pending = append(pending, w.Bytes())
			pendingLen += w.Len()
			err := e.Encode(&v)
			verifAssert(err == nil, "C09:encode-ok")
			if pendingLen >= bs {
				wantBlocks = append(wantBlocks, pending)
				pending, pendingLen = nil, 0
			}
		} else {
			err := e.Flush()
			verifAssert(err == nil, "C09:flush-ok")
			if len(pending) > 0 {
				wantBlocks = append(wantBlocks, pending)
				pending, pendingLen = nil, 0
			}
		}
		// after every call: the output so far is exactly the blocks implied so far
		verifCheckBlocks(rec.all()[hdr:], sync, comp, wantBlocks, "C09")
	}
	err = e.Flush()
	verifAssert(err == nil, "C09:final-flush-ok")
	if len(pending) > 0 {
		wantBlocks = append(wantBlocks, pending)
	}
	verifCheckBlocks(rec.all()[hdr:], sync, comp, wantBlocks, "C09")
	verifReach("end")
}

func verifC09Ops() int {
	if verifThorough() {
		return 4
	}
	return 3
}

func verifCheckBlocks(out []byte, sync [16]byte, comp Compression, want [][][]byte, p string) {
	blocks, ok := refParseBlocks(out, sync)
	verifAssert(ok, p+":output-is-a-gap-free-sequence-of-blocks")
	if !ok {
		return
	}
	verifAssert(len(blocks) == len(want), p+":one-block-per-size-trigger-or-flush-and-no-empty-block")
	if len(blocks) != len(want) {
		return
	}
	for i := range blocks {
		verifAssert(blocks[i].count == int64(len(want[i])), p+":block-record-count-is-exact")
		var payload []byte
		for _, r := range want[i] {
			payload = append(payload, r...)
		}
		got, ok := refDecompress(comp, blocks[i].payload)
		verifAssert(ok, p+":block-payload-decompresses")
		if ok {
			verifAssert(refBytesEq(got, payload), p+":block-payload-is-the-records-in-order")
		}
	}
}

// One step from an arbitrary valid encoder state (inductive form of C09): the
// pre-state is any (count, buffered bytes, block size) satisfying the
// encoder's invariant, so histories of any length are covered.
func verifHarness_C09_step() {
	verifAllocMax(4096)
	comp := verifCompression(verifChoice("codec", 3))
	rec := &verifRecorder{failAt: -1}
	e, err := NewEncoderFor[verifRec](rec, comp, 0)
	verifAssume(err == nil)
	hdr := len(rec.all())
	sync := e.fw.sync
	// arbitrary pre-state
	c := verifNondetInt("count")
	verifAssume(c >= 0 && c < 1<<40)
	plen := verifChoice("buffered", 4)
	P := verifBytes("P", plen)
	B := verifNondetInt("blocksize")
	verifAssume(B >= 0)
	// invariant established by NewEncoderFor and preserved by every call:
	// nothing buffered iff count == 0; whatever is buffered is below the block size
	verifAssume((c == 0) == (plen == 0))
	verifAssume(c == 0 || plen < B)
	e.count = c
	e.approxBlockSize = B
	e.wb = NewWriteBuf(append([]byte(nil), P...))
	if verifChoice("op", 2) == 0 {
		var v verifRec
		verifFillRec(&v, "v")
		s, _ := SchemaForType(verifRec{})
		cd, _ := s.Codec(verifRec{})
		w := NewWriteBuf(nil)
		cd.Write(w, unsafe.Pointer(&v))
		enc := w.Bytes()
		err := e.Encode(&v)
		verifAssert(err == nil, "C09:step-encode-ok")
		out := rec.all()[hdr:]
		if plen+len(enc) >= B {
			blocks, ok := refParseBlocks(out, sync)
			verifAssert(ok && len(blocks) == 1, "C09:step-exactly-one-block-when-size-reached")
			if ok && len(blocks) == 1 {
				verifAssert(blocks[0].count == int64(c)+1, "C09:step-block-count-is-pending-plus-one")
				got, ok := refDecompress(comp, blocks[0].payload)
				verifAssert(ok && refBytesEq(got, append(append([]byte(nil), P...), enc...)), "C09:step-block-payload-is-buffer-plus-record")
			}
			verifAssert(e.count == 0 && e.wb.Len() == 0, "C09:step-nothing-pending-after-block")
			verifReach("encode-block")
		} else {
			verifAssert(len(out) == 0, "C09:step-no-output-below-block-size")
			verifAssert(e.count == c+1 && refBytesEq(e.wb.Bytes(), append(append([]byte(nil), P...), enc...)), "C09:step-record-appended-to-pending")
			verifReach("encode-buffer")
		}
	} else {
		err := e.Flush()
		verifAssert(err == nil, "C09:step-flush-ok")
		out := rec.all()[hdr:]
		if c > 0 {
			blocks, ok := refParseBlocks(out, sync)
			verifAssert(ok && len(blocks) == 1, "C09:step-flush-emits-one-block")
			if ok && len(blocks) == 1 {
				verifAssert(blocks[0].count == int64(c), "C09:step-flush-block-count")
				got, ok := refDecompress(comp, blocks[0].payload)
				verifAssert(ok && refBytesEq(got, P), "C09:step-flush-block-payload")
			}
			verifReach("flush-block")
		} else {
			verifAssert(len(out) == 0, "C09:step-no-empty-block")
			verifReach("flush-nothing")
		}
		verifAssert(e.count == 0 && e.wb.Len() == 0, "C09:step-nothing-pending-after-flush")
	}
}

// C16: the writer fails on its k-th write, for every k.
func verifHarness_C16_faults() {
	verifAllocMax(4096)
	comp := verifCompression(verifChoice("codec", 3))
	bs := verifChoice("blocksize", 4)
	// fault-free twin with the same sync marker and the same calls
	good := &verifRecorder{failAt: -1}
	bad := &verifRecorder{failAt: verifChoice("failAt", 10), failErr: errVerifWriter}
	nops := 1 + verifChoice("ops", 3)
	ops := make([]int, nops)
	vals := make([]verifRec, nops)
	for i := range ops {
		ops[i] = verifChoice("op", 2)
		if ops[i] == 0 {
			verifFillRec(&vals[i], "v"+string(rune('0'+i)))
		}
	}
	eg, err := NewEncoderFor[verifRec](good, comp, bs)
	verifAssume(err == nil)
	sync := eg.fw.sync
	for i := range ops {
		if ops[i] == 0 {
			verifAssume(eg.Encode(&vals[i]) == nil)
		} else {
			verifAssume(eg.Flush() == nil)
		}
	}
	verifAssume(eg.Flush() == nil)
	full := good.all()

	eb, err := NewEncoderFor[verifRec](bad, comp, bs)
	sawErr := false
	if err != nil {
		verifAssert(bad.failed, "C16:error-only-when-the-writer-failed")
		verifAssert(errors.Is(err, errVerifWriter), "C16:error-wraps-the-writer-error")
		sawErr = true
	} else {
		eb.fw.sync = sync
		for i := 0; i <= len(ops) && !sawErr; i++ {
			wasFailed := bad.failed
			var err error
			if i == len(ops) || ops[i] == 1 {
				err = eb.Flush()
			} else {
				err = eb.Encode(&vals[i])
			}
			if bad.failed && !wasFailed {
				verifAssert(err != nil, "C16:call-that-triggered-the-failed-write-returns-an-error")
				if err != nil {
					verifAssert(errors.Is(err, errVerifWriter), "C16:error-wraps-the-writer-error")
				}
				sawErr = true
			} else if !bad.failed {
				verifAssert(err == nil, "C16:no-error-without-a-fault")
			}
		}
	}
	verifAssert(bad.afterFail == 0, "C16:no-write-attempted-after-the-failed-one")
	acc := bad.all()
	if bad.failed && err == nil {
		// the sync marker was aligned, so the accepted bytes must be a prefix
		isPrefix := len(acc) <= len(full)
		if isPrefix {
			isPrefix = refBytesEq(acc, full[:len(acc)])
		}
		verifAssert(isPrefix, "C16:accepted-bytes-are-a-prefix-of-the-fault-free-output")
	}
	if bad.failed {
		verifReach("fault")
	} else {
		verifReach("nofault")
	}
}

// FileWriter used directly: WriteHeader and WriteBlock with a fault at every write index.
func verifHarness_C16_filewriter() {
	verifAllocMax(4096)
	comp := verifCompression(verifChoice("codec", 3))
	fw, err := NewFileWriter([]byte("{}"), comp)
	verifAssume(err == nil)
	payload := verifBytes("payload", verifChoice("plen", 3))
	rows := int(verifNarrow("rows"))
	verifAssume(rows >= 0)
	good := &verifRecorder{failAt: -1}
	verifAssume(fw.WriteHeader(good) == nil)
	verifAssume(fw.WriteBlock(good, rows, payload) == nil)
	full := good.all()
	bad := &verifRecorder{failAt: verifChoice("failAt", 5), failErr: errVerifWriter}
	err = fw.WriteHeader(bad)
	if bad.failed {
		verifAssert(err != nil && errors.Is(err, errVerifWriter), "C16:writeheader-returns-the-writer-error")
		verifReach("header-fault")
	} else {
		verifAssert(err == nil, "C16:no-error-without-a-fault")
		err = fw.WriteBlock(bad, rows, payload)
		verifAssert(bad.failed && err != nil && errors.Is(err, errVerifWriter), "C16:writeblock-returns-the-writer-error")
		verifReach("block-fault")
	}
	verifAssert(bad.afterFail == 0, "C16:no-write-attempted-after-the-failed-one")
	acc := bad.all()
	verifAssert(len(acc) <= len(full) && refBytesEq(acc, full[:len(acc)]), "C16:accepted-bytes-are-a-prefix-of-the-fault-free-output")
}

// ---------------------------------------------------------------- C06 (b)

// Arbitrary bytes offered as a container file.
func verifHarness_C06_file_arbitrary() {
	n := verifChoice("len", verifC06FileLen()+1)
	buf := verifBytes("buf", n)
	verifUnwind(2*n + 24)
	verifAllocMax(2*n + 64)
	sink := &verifSink{failAt: -1}
	err := ReadFile(&verifReader{buf: buf}, verifRec{}, sink.cb)
	verifObserveBool("err", err != nil)
	verifReach("end")
}

func verifC06FileLen() int {
	if verifThorough() {
		return 12
	}
	return 9
}

// A valid header (each codec variant, and none) followed by arbitrary bytes.
func verifHarness_C06_blocks_arbitrary() {
	k := verifChoice("variant", 5)
	var keys []string
	var vals [][]byte
	tok := verifSchemaToken()
	switch k {
	case 0:
		keys, vals = []string{"avro.schema"}, [][]byte{tok}
	case 1:
		keys, vals = []string{"avro.schema", "avro.codec"}, [][]byte{tok, []byte("null")}
	case 2:
		keys, vals = []string{"avro.schema", "avro.codec"}, [][]byte{tok, []byte("deflate")}
	case 3:
		keys, vals = []string{"avro.schema", "avro.codec"}, [][]byte{tok, []byte("snappy")}
	case 4:
		keys, vals = []string{"avro.codec", "avro.schema"}, [][]byte{[]byte("null"), tok}
	}
	var sync [16]byte
	copy(sync[:], verifBytes("sync", 16))
	data := verifHeaderWith(keys, vals, sync)
	n := verifChoice("len", verifC06BlockLen()+1)
	tail := verifBytes("tail", n)
	data = append(data, tail...)
	verifUnwind(2*n + 40)
	verifAllocMax(2*n + 1100)
	sink := &verifSink{failAt: -1}
	err := ReadFile(&verifReader{buf: data}, verifRec{}, sink.cb)
	verifObserveBool("err", err != nil)
	verifReach("end")
}

func verifC06BlockLen() int {
	if verifThorough() {
		return 8
	}
	return 5
}

// ---------------------------------------------------------------- C10 (2)

type verifRec10 struct {
	S string
	B []byte
	P *int64
	L []string
}

// Records delivered to the callback do not alias the reader's buffers: after
// more blocks have been decoded (buffers reused) and other banks closed and
// recycled, a retained record still holds what was decoded.
func verifHarness_C10_retained_records() {
	verifAllocMax(4096)
	comp := verifCompression(verifChoice("codec", 3))
	s, err := SchemaForType(verifRec10{})
	verifAssume(err == nil)
	c, err := s.Codec(verifRec10{})
	verifAssume(err == nil)
	sb, _ := s.Marshal()
	fw, err := NewFileWriter(sb, comp)
	verifAssume(err == nil)
	data := fw.AppendHeader(nil)
	var want [3]verifRec10
	for bi := 0; bi < 3; bi++ {
		v := &want[bi]
		tag := "r" + string(rune('0'+bi))
		v.S = verifString(tag+".S", verifChoice(tag+".S.len", 3))
		v.B = verifBytes(tag+".B", verifChoice(tag+".B.len", 3))
		if verifChoice(tag+".P.nil", 2) == 0 {
			v.P = new(int64)
			*v.P = verifNarrow(tag + ".P")
		}
		nl := verifChoice(tag+".L.len", 2)
		for i := 0; i < nl; i++ {
			v.L = append(v.L, verifString(tag+".L", 1))
		}
		w := NewWriteBuf(nil)
		c.Write(w, unsafe.Pointer(v))
		rec := &verifRecorder{failAt: -1}
		verifAssume(fw.WriteBlock(rec, 1, w.Bytes()) == nil)
		data = append(data, rec.all()...)
	}
	closeFirst := verifChoice("closeFirstBank", 2) == 1
	var got []verifRec10
	var banks []*ResourceBank
	err = ReadFile(&verifReader{buf: data}, verifRec10{}, func(val unsafe.Pointer, rb *ResourceBank) error {
		got = append(got, *(*verifRec10)(val))
		banks = append(banks, rb)
		if closeFirst && len(banks) == 2 {
			// the first record's owner gives its bank back: it may be recycled
			// for record 3; records 2 and 3 must be unaffected
			banks[0].Close()
		}
		return nil
	})
	verifAssert(err == nil, "C10:read-ok")
	verifAssert(len(got) == 3, "C10:three-records")
	if err != nil || len(got) != 3 {
		return
	}
	first := 0
	if closeFirst {
		first = 1
	}
	for i := first; i < 3; i++ {
		g, w := &got[i], &want[i]
		ok := verifAnd(verifStrEq(g.S, w.S), refBytesEq(g.B, w.B))
		if w.P == nil {
			ok = verifAnd(ok, g.P == nil)
		} else {
			ok = verifAnd(ok, g.P != nil && *g.P == *w.P)
		}
		ok = verifAnd(ok, len(g.L) == len(w.L))
		if len(g.L) == len(w.L) {
			for j := range w.L {
				ok = verifAnd(ok, verifStrEq(g.L[j], w.L[j]))
			}
		}
		verifAssert(ok, "C10:retained-record-still-holds-its-values")
		if verifSymbolic() {
			// nothing reachable from a delivered record lives in the reader's buffers
			verifAssert(verifTagOf(g.S) != "input" && verifTagOf(g.B) != "input", "C10:no-pointer-into-the-input")
		}
	}
	verifReach("end")
}
