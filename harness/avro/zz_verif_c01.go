package avro

import "unsafe"

type verifT1 struct {
	A int64
	B string `json:"b,omitempty"`
	C []int32
	D *int64
}

func verifHarness_C01_smoke() {
	s, err := schemaForType(reflectTypeOfVal(verifT1{}))
	verifAssert(err == nil, "schema-ok")
	c, err := s.Codec(verifT1{})
	verifAssert(err == nil, "codec-ok")
	var v verifT1
	v.A = verifNondetI64("A")
	w := NewWriteBuf(nil)
	c.Write(w, unsafe.Pointer(&v))
	var out verifT1
	r := NewReadBuf(w.Bytes())
	err = c.Read(r, unsafe.Pointer(&out))
	verifAssert(err == nil, "read-ok")
	verifAssert(out.A == v.A, "A-roundtrip")
	verifAssert(r.Len() == 0, "consumed")
	verifReach("end")
}
