package avro

// Environment stubs, written in Go and executed symbolically by the engine in
// place of the named library functions (verifStub_<pkg>_<Func>,
// verifStub_<pkg>_<Type>_<Method>).  They are NOT used in native replay, where
// the real libraries run.  Each stub is part of every claim that reaches it.

import (
	"compress/flate"
	"errors"
	"io"
	"sync"

	"github.com/go-json-experiment/json"
)

// ---- schema JSON: an invertible token instead of text -----------------------
//
// json.Marshal(*Schema) yields the two bytes '#', k where k indexes a table of
// the schemas marshalled so far; json.Unmarshal of such a token yields that
// schema again. The JSON text itself and its parser are C14's subject.

var verifSchemaReg []Schema

var errVerifJSON = errors.New("stub json: not a schema token")

func verifStub_json_Marshal(in any, opts ...json.Options) ([]byte, error) {
	if s, ok := in.(*Schema); ok {
		// equal schemas get the same token (marshalling is a function)
		for i := range verifSchemaReg {
			if verifSchemaEq(&verifSchemaReg[i], s) {
				return []byte{'#', byte(i)}, nil
			}
		}
		verifSchemaReg = append(verifSchemaReg, *s)
		return []byte{'#', byte(len(verifSchemaReg) - 1)}, nil
	}
	return nil, errVerifJSON
}

func verifSchemaEq(a, b *Schema) bool {
	if a.Type != b.Type || len(a.Union) != len(b.Union) || (a.Object == nil) != (b.Object == nil) {
		return false
	}
	for i := range a.Union {
		if !verifSchemaEq(&a.Union[i], &b.Union[i]) {
			return false
		}
	}
	if a.Object == nil {
		return true
	}
	x, y := a.Object, b.Object
	if x.Type != y.Type || x.LogicalType != y.LogicalType || x.Name != y.Name || x.Namespace != y.Namespace || x.Size != y.Size ||
		len(x.Fields) != len(y.Fields) || len(x.Symbols) != len(y.Symbols) {
		return false
	}
	for i := range x.Fields {
		if x.Fields[i].Name != y.Fields[i].Name || !verifSchemaEq(&x.Fields[i].Type, &y.Fields[i].Type) {
			return false
		}
	}
	for i := range x.Symbols {
		if x.Symbols[i] != y.Symbols[i] {
			return false
		}
	}
	return verifSchemaEq(&x.Items, &y.Items) && verifSchemaEq(&x.Values, &y.Values)
}

func verifStub_json_Unmarshal(in []byte, out any, opts ...json.Options) error {
	s, ok := out.(*Schema)
	if !ok || len(in) != 2 || in[0] != '#' {
		return errVerifJSON
	}
	k := int(in[1])
	if k >= len(verifSchemaReg) {
		return errVerifJSON
	}
	*s = verifSchemaReg[k]
	return nil
}

// ---- compression: tagged identity --------------------------------------------
//
// The library never looks inside compressed bytes, so any compressor with
// decompress(compress(x)) = x is as good as another for the framing
// properties. The model compressor prefixes one tag byte; the model
// decompressor rejects input without the tag and may, in addition, report a
// failure of its own (symbolic choice) — "the decompressor rejects the block".

const (
	verifTagSnappy  = 0xC5
	verifTagDeflate = 0xDF
)

var errVerifCorrupt = errors.New("stub: corrupt compressed data")

// verifAllowReject lets the model decompressors reject blocks of their own
// accord; verifRejected records that one did.
var (
	verifAllowReject bool
	verifRejected    bool
)

// model frame: tag, payload length (one byte: model payloads are short), payload.
// Like the real block format, the frame declares its decoded length: the
// snappy model rejects input that is longer or shorter than its frame, the
// deflate model stops reading at the end of the first frame.
func verifStub_snappy_Encode(dst, src []byte) []byte {
	out := make([]byte, 0, len(src)+2)
	out = append(out, verifTagSnappy, byte(len(src)))
	return append(out, src...)
}

func verifStub_snappy_Decode(dst, src []byte) ([]byte, error) {
	if len(src) < 2 || src[0] != verifTagSnappy || int(src[1]) != len(src)-2 {
		verifRejected = true
		return nil, errVerifCorrupt
	}
	if verifAllowReject && verifNondetBool("stub.snappy.reject") {
		verifRejected = true
		return nil, errVerifCorrupt
	}
	out := make([]byte, len(src)-2)
	copy(out, src[2:])
	return out, nil
}

// crc32 is an uninterpreted function of the bytes.
func verifStub_crc32_ChecksumIEEE(data []byte) uint32 {
	if len(data) == 0 {
		return 0 // the CRC-32 of the empty string
	}
	return verifUF32("crc32", data)
}

type verifDeflState struct {
	dst io.Writer
	buf []byte
}

var verifDeflWriters = map[*flate.Writer]*verifDeflState{}

func verifStub_flate_NewWriter(w io.Writer, level int) (*flate.Writer, error) {
	fw := new(flate.Writer)
	verifDeflWriters[fw] = &verifDeflState{dst: w}
	return fw, nil
}

func verifStub_flate_Writer_Reset(fw *flate.Writer, dst io.Writer) {
	st := verifDeflWriters[fw]
	st.dst = dst
	st.buf = nil
}

func verifStub_flate_Writer_Write(fw *flate.Writer, p []byte) (int, error) {
	st := verifDeflWriters[fw]
	st.buf = append(st.buf, p...)
	return len(p), nil
}

func verifStub_flate_Writer_Close(fw *flate.Writer) error {
	st := verifDeflWriters[fw]
	out := append([]byte{verifTagDeflate, byte(len(st.buf))}, st.buf...)
	_, err := st.dst.Write(out)
	return err
}

// verifInflater models the flate reader: it yields the payload after the tag
// byte, or fails (wrong tag, or the decompressor's own verdict).
type verifInflater struct {
	src  io.Reader
	data []byte
	pos  int
	init bool
	err  error
}

func verifStub_flate_NewReader(r io.Reader) io.ReadCloser {
	return &verifInflater{src: r}
}

func (f *verifInflater) Reset(r io.Reader, dict []byte) error {
	f.src = r
	f.data = nil
	f.pos = 0
	f.init = false
	f.err = nil
	return nil
}

func (f *verifInflater) Close() error { return nil }

func (f *verifInflater) Read(p []byte) (int, error) {
	if !f.init {
		f.init = true
		var all []byte
		var tmp [8]byte
		for {
			n, err := f.src.Read(tmp[:])
			all = append(all, tmp[:n]...)
			if err != nil {
				break
			}
		}
		if len(all) < 2 || all[0] != verifTagDeflate || int(all[1]) > len(all)-2 {
			verifRejected = true
			f.err = errVerifCorrupt
		} else if verifAllowReject && verifNondetBool("stub.inflate.reject") {
			verifRejected = true
			// the real inflater detects some corruptions only after having
			// produced output: deliver a prefix, then fail
			k := verifChoice("stub.inflate.prefix", int(all[1])+1)
			f.data = all[2 : 2+k]
			// the real inflater reports damage either as corrupt input or,
			// when it runs off the end of the stream, as an unexpected EOF
			f.err = errVerifCorrupt
			if verifNondetBool("stub.inflate.eof") {
				f.err = io.ErrUnexpectedEOF
			}
		} else {
			// the stream ends where its frame ends; what follows is not read
			f.data = all[2 : 2+int(all[1])]
		}
	}
	if f.pos < len(f.data) {
		n := copy(p, f.data[f.pos:])
		f.pos += n
		return n, nil
	}
	if f.err != nil {
		return 0, f.err
	}
	return 0, io.EOF
}

// ---- io.CopyN: contract model ---------------------------------------------------
//
// Copies up to n bytes in small chunks and returns io.EOF when the source ends
// early, as documented. (The real implementation slices a 512-byte scratch
// buffer by the symbolic n, which the engine could only follow by forking
// hundreds of ways.)
func verifStub_io_CopyN(dst io.Writer, src io.Reader, n int64) (int64, error) {
	var written int64
	var tmp [8]byte
	for written < n {
		k := int64(8)
		if n-written < 8 {
			k = n - written
		}
		m, err := src.Read(tmp[:k])
		if m > 0 {
			if _, werr := dst.Write(tmp[:m]); werr != nil {
				return written, werr
			}
			written += int64(m)
		}
		if err != nil {
			return written, err
		}
	}
	return written, nil
}

// ---- sync.Map: an association list per map ----------------------------------
//
// The real type is a lock-free trie over atomics and unsafe pointers. The model
// keeps its documented sequential behaviour; as a concurrency-safe container its
// state is exempt from the C12 ownership monitor (engine: verifStub_sync_*).

type verifSyncMapState struct {
	m    *sync.Map
	keys []any
	vals []any
}

var verifSyncMaps []*verifSyncMapState

func verifSyncMapFor(m *sync.Map) *verifSyncMapState {
	for _, s := range verifSyncMaps {
		if s.m == m {
			return s
		}
	}
	s := &verifSyncMapState{m: m}
	verifSyncMaps = append(verifSyncMaps, s)
	return s
}

func (s *verifSyncMapState) find(key any) int {
	for i := range s.keys {
		if s.keys[i] == key {
			return i
		}
	}
	return -1
}

func (s *verifSyncMapState) remove(i int) {
	s.keys = append(s.keys[:i:i], s.keys[i+1:]...)
	s.vals = append(s.vals[:i:i], s.vals[i+1:]...)
}

func verifStub_sync_Map_Load(m *sync.Map, key any) (any, bool) {
	s := verifSyncMapFor(m)
	if i := s.find(key); i >= 0 {
		return s.vals[i], true
	}
	return nil, false
}

func verifStub_sync_Map_Store(m *sync.Map, key, value any) {
	verifStub_sync_Map_Swap(m, key, value)
}

func verifStub_sync_Map_Swap(m *sync.Map, key, value any) (any, bool) {
	s := verifSyncMapFor(m)
	if i := s.find(key); i >= 0 {
		old := s.vals[i]
		s.vals[i] = value
		return old, true
	}
	s.keys = append(s.keys, key)
	s.vals = append(s.vals, value)
	return nil, false
}

func verifStub_sync_Map_LoadOrStore(m *sync.Map, key, value any) (any, bool) {
	s := verifSyncMapFor(m)
	if i := s.find(key); i >= 0 {
		return s.vals[i], true
	}
	s.keys = append(s.keys, key)
	s.vals = append(s.vals, value)
	return value, false
}

func verifStub_sync_Map_LoadAndDelete(m *sync.Map, key any) (any, bool) {
	s := verifSyncMapFor(m)
	if i := s.find(key); i >= 0 {
		old := s.vals[i]
		s.remove(i)
		return old, true
	}
	return nil, false
}

func verifStub_sync_Map_Delete(m *sync.Map, key any) {
	verifStub_sync_Map_LoadAndDelete(m, key)
}

func verifStub_sync_Map_CompareAndSwap(m *sync.Map, key, old, new any) bool {
	s := verifSyncMapFor(m)
	if i := s.find(key); i >= 0 && s.vals[i] == old {
		s.vals[i] = new
		return true
	}
	return false
}

func verifStub_sync_Map_CompareAndDelete(m *sync.Map, key, old any) bool {
	s := verifSyncMapFor(m)
	if i := s.find(key); i >= 0 && s.vals[i] == old {
		s.remove(i)
		return true
	}
	return false
}

func verifStub_sync_Map_Range(m *sync.Map, f func(key, value any) bool) {
	s := verifSyncMapFor(m)
	keys := append([]any(nil), s.keys...)
	vals := append([]any(nil), s.vals...)
	for i := range keys {
		if !f(keys[i], vals[i]) {
			return
		}
	}
}

func verifStub_sync_Map_Clear(m *sync.Map) {
	s := verifSyncMapFor(m)
	s.keys, s.vals = nil, nil
}
