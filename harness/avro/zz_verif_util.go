package avro

import "reflect"

func reflectTypeOfVal(v any) reflect.Type { return reflect.TypeOf(v) }
