package avro

import (
	"unsafe"
)

// ---- reference model, written from the Avro 1.8 specification ----

// refZigZagVarint: zig-zag then base-128 little-endian groups, shortest form.
func refZigZagVarint(v int64) []byte {
	u := uint64(v<<1) ^ uint64(v>>63)
	var out []byte
	for {
		b := byte(u & 0x7f)
		u >>= 7
		if u != 0 {
			out = append(out, b|0x80)
		} else {
			out = append(out, b)
			return out
		}
	}
}

// refDecodeVarint decodes one zig-zag varint from buf. ok=false when the
// input is truncated, longer than ten bytes, or overflows 64 bits.
func refDecodeVarint(buf []byte) (v int64, n int, ok bool) {
	var u uint64
	for i := 0; i < len(buf); i++ {
		b := buf[i]
		if i == 10 {
			return 0, 0, false
		}
		if i == 9 && b > 1 {
			// more than 64 bits of payload, or an eleventh byte follows
			return 0, 0, false
		}
		u |= uint64(b&0x7f) << (7 * uint(i))
		if b < 0x80 {
			return int64(u>>1) ^ -int64(u&1), i + 1, true
		}
	}
	return 0, 0, false
}

func verifBytesEq(a, b []byte) bool {
	if len(a) != len(b) {
		return false
	}
	for i := range a {
		if a[i] != b[i] {
			return false
		}
	}
	return true
}

// (1) WriteBuf.Varint agrees with the specification for every int64.
func verifHarness_C17_varint_write() {
	v := verifNondetI64("v")
	w := NewWriteBuf(nil)
	w.Varint(v)
	got := w.Bytes()
	want := refZigZagVarint(v)
	verifAssert(len(got) <= 10, "varint-at-most-10-bytes")
	verifAssert(verifBytesEq(got, want), "varint-bytes-match-spec")
	verifAssert(got[len(got)-1] < 0x80, "varint-terminated")
	verifAssert(len(got) == 1 || got[len(got)-1] != 0, "varint-shortest-form")
	verifObserveBytes("encoded", got)
	verifReach("end")
}

// (1b) ReadBuf.Varint inverts WriteBuf.Varint for every int64.
func verifHarness_C17_varint_roundtrip() {
	v := verifNondetI64("v")
	w := NewWriteBuf(nil)
	w.Varint(v)
	r := NewReadBuf(w.Bytes())
	got, err := r.Varint()
	verifAssert(err == nil, "roundtrip-no-error")
	verifAssert(got == v, "roundtrip-value")
	verifAssert(r.Len() == 0, "roundtrip-consumed-all")
	verifObserveI64("decoded", got)
	verifReach("end")
}

// (2) ReadBuf.Varint against the reference decoder on arbitrary buffers.
func verifHarness_C17_varint_read_arbitrary() {
	n := verifChoice("len", 12)
	buf := verifBytes("buf", n)
	r := NewReadBuf(buf)
	got, err := r.Varint()
	wantV, wantN, ok := refDecodeVarint(buf)
	if ok {
		verifAssert(err == nil, "accepts-legal-varint")
		verifAssert(err != nil || got == wantV, "decoded-value-matches-spec")
		verifAssert(err != nil || len(buf)-r.Len() == wantN, "consumed-matches-spec")
		verifReach("legal")
	} else {
		verifAssert(err != nil, "rejects-illegal-varint")
		verifReach("illegal")
	}
	verifObserveBool("err", err != nil)
	if err == nil {
		verifObserveI64("val", got)
	}
}

type verifGuardI16 struct {
	G0 [2]byte
	V  int16
	G1 [4]byte
}
type verifGuardI32 struct {
	G0 [4]byte
	V  int32
	G1 [4]byte
}
type verifGuardI64 struct {
	G0 [8]byte
	V  int64
	G1 [8]byte
}

// (3) IntCodec[T]: Read∘Write is the identity on every T value, emitted
// bytes are the spec encoding, and exactly sizeof(T) bytes are stored.
func verifHarness_C17_int16_codec() {
	v := verifNondetI16("v")
	c := Int16Codec{}
	w := NewWriteBuf(nil)
	c.Write(w, unsafe.Pointer(&v))
	verifAssert(verifBytesEq(w.Bytes(), refZigZagVarint(int64(v))), "int16-bytes-match-spec")
	var g verifGuardI16
	g.G0 = [2]byte{0xA5, 0x5A}
	g.G1 = [4]byte{0xA5, 0x5A, 0xC3, 0x3C}
	r := NewReadBuf(w.Bytes())
	err := c.Read(r, unsafe.Pointer(&g.V))
	verifAssert(err == nil, "int16-read-ok")
	verifAssert(g.V == v, "int16-roundtrip")
	verifAssert(g.G0 == [2]byte{0xA5, 0x5A} && g.G1 == [4]byte{0xA5, 0x5A, 0xC3, 0x3C}, "int16-guards-intact")
	verifAssert(r.Len() == 0, "int16-consumed-all")
	verifObserveI64("v", int64(g.V))
	verifReach("end")
}

func verifHarness_C17_int32_codec() {
	v := verifNondetI32("v")
	c := Int32Codec{}
	w := NewWriteBuf(nil)
	c.Write(w, unsafe.Pointer(&v))
	verifAssert(verifBytesEq(w.Bytes(), refZigZagVarint(int64(v))), "int32-bytes-match-spec")
	var g verifGuardI32
	g.G0 = [4]byte{0xA5, 0x5A, 1, 2}
	g.G1 = [4]byte{0xA5, 0x5A, 0xC3, 0x3C}
	r := NewReadBuf(w.Bytes())
	err := c.Read(r, unsafe.Pointer(&g.V))
	verifAssert(err == nil, "int32-read-ok")
	verifAssert(g.V == v, "int32-roundtrip")
	verifAssert(g.G0 == [4]byte{0xA5, 0x5A, 1, 2} && g.G1 == [4]byte{0xA5, 0x5A, 0xC3, 0x3C}, "int32-guards-intact")
	verifAssert(r.Len() == 0, "int32-consumed-all")
	verifObserveI64("v", int64(g.V))
	verifReach("end")
}

func verifHarness_C17_int64_codec() {
	v := verifNondetI64("v")
	c := Int64Codec{}
	w := NewWriteBuf(nil)
	c.Write(w, unsafe.Pointer(&v))
	verifAssert(verifBytesEq(w.Bytes(), refZigZagVarint(v)), "int64-bytes-match-spec")
	var g verifGuardI64
	g.G0 = [8]byte{0xA5, 0x5A, 1, 2, 3, 4, 5, 6}
	g.G1 = [8]byte{0xA5, 0x5A, 0xC3, 0x3C, 9, 8, 7, 6}
	r := NewReadBuf(w.Bytes())
	err := c.Read(r, unsafe.Pointer(&g.V))
	verifAssert(err == nil, "int64-read-ok")
	verifAssert(g.V == v, "int64-roundtrip")
	verifAssert(g.G0 == [8]byte{0xA5, 0x5A, 1, 2, 3, 4, 5, 6} && g.G1 == [8]byte{0xA5, 0x5A, 0xC3, 0x3C, 9, 8, 7, 6}, "int64-guards-intact")
	verifAssert(r.Len() == 0, "int64-consumed-all")
	verifObserveI64("v", g.V)
	verifReach("end")
}

// (3b) range check: for every long on the wire, IntCodec[T].Read errors iff
// the value is outside T, otherwise stores exactly it.
func verifHarness_C17_int16_range() {
	l := verifNondetI64("l")
	var g verifGuardI16
	g.G0 = [2]byte{0xA5, 0x5A}
	g.G1 = [4]byte{0xA5, 0x5A, 0xC3, 0x3C}
	r := NewReadBuf(refZigZagVarint(l))
	err := Int16Codec{}.Read(r, unsafe.Pointer(&g.V))
	fits := l >= -32768 && l <= 32767
	if fits {
		verifAssert(err == nil, "int16-accepts-in-range")
		verifAssert(int64(g.V) == l, "int16-stores-value")
		verifReach("fits")
	} else {
		verifAssert(err != nil, "int16-rejects-out-of-range")
		verifAssert(g.V == 0, "int16-untouched-on-error")
		verifReach("overflow")
	}
	verifAssert(g.G0 == [2]byte{0xA5, 0x5A} && g.G1 == [4]byte{0xA5, 0x5A, 0xC3, 0x3C}, "int16-range-guards-intact")
}

func verifHarness_C17_int32_range() {
	l := verifNondetI64("l")
	var g verifGuardI32
	g.G0 = [4]byte{0xA5, 0x5A, 1, 2}
	g.G1 = [4]byte{0xA5, 0x5A, 0xC3, 0x3C}
	r := NewReadBuf(refZigZagVarint(l))
	err := Int32Codec{}.Read(r, unsafe.Pointer(&g.V))
	fits := l >= -2147483648 && l <= 2147483647
	if fits {
		verifAssert(err == nil, "int32-accepts-in-range")
		verifAssert(int64(g.V) == l, "int32-stores-value")
		verifReach("fits")
	} else {
		verifAssert(err != nil, "int32-rejects-out-of-range")
		verifAssert(g.V == 0, "int32-untouched-on-error")
		verifReach("overflow")
	}
	verifAssert(g.G0 == [4]byte{0xA5, 0x5A, 1, 2} && g.G1 == [4]byte{0xA5, 0x5A, 0xC3, 0x3C}, "int32-range-guards-intact")
}

// (4) float / double: IEEE-754 little-endian, bit-exact round trip for every
// bit pattern (pure bit-vector reasoning, NaN payloads included).
func verifHarness_C17_float_codec() {
	bits := verifNondetU32("bits")
	f := *(*float32)(unsafe.Pointer(&bits))
	c := FloatCodec{}
	w := NewWriteBuf(nil)
	c.Write(w, unsafe.Pointer(&f))
	b := w.Bytes()
	verifAssert(len(b) == 4, "float-4-bytes")
	verifAssert(len(b) != 4 || (b[0] == byte(bits) && b[1] == byte(bits>>8) && b[2] == byte(bits>>16) && b[3] == byte(bits>>24)), "float-ieee-little-endian")
	var g struct {
		G0 [4]byte
		V  float32
		G1 [4]byte
	}
	g.G0 = [4]byte{1, 2, 3, 4}
	g.G1 = [4]byte{5, 6, 7, 8}
	r := NewReadBuf(b)
	err := c.Read(r, unsafe.Pointer(&g.V))
	verifAssert(err == nil, "float-read-ok")
	verifAssert(*(*uint32)(unsafe.Pointer(&g.V)) == bits, "float-bit-exact")
	verifAssert(g.G0 == [4]byte{1, 2, 3, 4} && g.G1 == [4]byte{5, 6, 7, 8}, "float-guards-intact")
	verifAssert(r.Len() == 0, "float-consumed-all")
	verifObserveBytes("encoded", b)
	verifReach("end")
}

func verifHarness_C17_double_codec() {
	bits := verifNondetU64("bits")
	f := *(*float64)(unsafe.Pointer(&bits))
	c := DoubleCodec{}
	w := NewWriteBuf(nil)
	c.Write(w, unsafe.Pointer(&f))
	b := w.Bytes()
	verifAssert(len(b) == 8, "double-8-bytes")
	ok := len(b) == 8
	for i := 0; ok && i < 8; i++ {
		ok = b[i] == byte(bits>>(8*uint(i)))
	}
	verifAssert(ok, "double-ieee-little-endian")
	var g struct {
		G0 [8]byte
		V  float64
		G1 [8]byte
	}
	g.G0 = [8]byte{1, 2, 3, 4, 5, 6, 7, 8}
	g.G1 = [8]byte{8, 7, 6, 5, 4, 3, 2, 1}
	r := NewReadBuf(b)
	err := c.Read(r, unsafe.Pointer(&g.V))
	verifAssert(err == nil, "double-read-ok")
	verifAssert(*(*uint64)(unsafe.Pointer(&g.V)) == bits, "double-bit-exact")
	verifAssert(g.G0 == [8]byte{1, 2, 3, 4, 5, 6, 7, 8} && g.G1 == [8]byte{8, 7, 6, 5, 4, 3, 2, 1}, "double-guards-intact")
	verifAssert(r.Len() == 0, "double-consumed-all")
	verifObserveBytes("encoded", b)
	verifReach("end")
}

// short input is an error, never a partial store that reports success
func verifHarness_C17_float_short_input() {
	n := verifChoice("len", 8)
	buf := verifBytes("buf", n)
	var f32 float32
	var f64 float64
	e32 := FloatCodec{}.Read(NewReadBuf(buf), unsafe.Pointer(&f32))
	e64 := DoubleCodec{}.Read(NewReadBuf(buf), unsafe.Pointer(&f64))
	verifAssert((e32 != nil) == (n < 4), "float-short-input-is-error")
	verifAssert(e64 != nil, "double-short-input-is-error")
	verifReach("end")
}

// (5) float32 carried as double: bit-identical for every non-NaN pattern,
// NaN maps to NaN; the emitted bytes are the IEEE double of the value.
func verifHarness_C17_float32_as_double() {
	bits := verifNondetU32("bits")
	f := *(*float32)(unsafe.Pointer(&bits))
	c := Float32DoubleCodec{}
	w := NewWriteBuf(nil)
	c.Write(w, unsafe.Pointer(&f))
	b := w.Bytes()
	verifAssert(len(b) == 8, "f32d-8-bytes")
	d := float64(f)
	dbits := *(*uint64)(unsafe.Pointer(&d))
	ok := len(b) == 8
	for i := 0; ok && i < 8; i++ {
		ok = b[i] == byte(dbits>>(8*uint(i)))
	}
	verifAssert(ok, "f32d-bytes-are-ieee-double-of-value")
	var g struct {
		G0 [4]byte
		V  float32
		G1 [4]byte
	}
	g.G0 = [4]byte{1, 2, 3, 4}
	g.G1 = [4]byte{5, 6, 7, 8}
	r := NewReadBuf(b)
	err := c.Read(r, unsafe.Pointer(&g.V))
	verifAssert(err == nil, "f32d-read-ok")
	got := *(*uint32)(unsafe.Pointer(&g.V))
	isNaN := f != f
	if isNaN {
		verifAssert(g.V != g.V, "f32d-nan-stays-nan")
		verifReach("nan")
	} else {
		verifAssert(got == bits, "f32d-bit-exact")
		verifReach("number")
	}
	verifAssert(g.G0 == [4]byte{1, 2, 3, 4} && g.G1 == [4]byte{5, 6, 7, 8}, "f32d-guards-intact")
	verifAssert(r.Len() == 0, "f32d-consumed-all")
}

// (6) boolean
func verifHarness_C17_bool_codec() {
	v := verifNondetBool("v")
	c := BoolCodec{}
	w := NewWriteBuf(nil)
	c.Write(w, unsafe.Pointer(&v))
	b := w.Bytes()
	verifAssert(len(b) == 1 && (b[0] == 1) == v && b[0] <= 1, "bool-one-byte-0-or-1")
	var g struct {
		G0 [1]byte
		V  bool
		G1 [2]byte
	}
	g.G0 = [1]byte{0xA5}
	g.G1 = [2]byte{0x5A, 0xC3}
	r := NewReadBuf(b)
	err := c.Read(r, unsafe.Pointer(&g.V))
	verifAssert(err == nil && g.V == v && r.Len() == 0, "bool-roundtrip")
	verifAssert(g.G0 == [1]byte{0xA5} && g.G1 == [2]byte{0x5A, 0xC3}, "bool-guards-intact")
	verifObserveBytes("encoded", b)
	verifReach("end")
}
