package avro

// C12: ownership / lockset discipline of every operation that may run
// concurrently with others. verifMonitor(true) marks the start of the
// operation under test: everything allocated before it is shared state
// (package globals, registries, built codec trees, input bytes); everything
// the operation allocates, or is handed (verifOwn, sync.Pool.Get), is its own.
// The engine reports every store into a shared object that is not a registry
// written under its write lock, and every registry lookup without its lock.
// If no operation writes shared memory outside a lock and each one's result is
// a function of its private inputs and the registry contents, then any two
// operations are race-free under every interleaving and compute what they
// compute alone.

import (
	"reflect"
	"unsafe"
)

type verifC12T struct {
	A int64
	S string `json:"s,omitempty"`
	L []int64
	M map[string]string
	P *int64
	B []byte
}

func verifC12Fill(v *verifC12T) {
	v.A = verifNarrow("A")
	v.S = verifString("S", verifChoice("S.len", 2))
	if verifChoice("L.len", 2) == 1 {
		v.L = []int64{verifNarrow("L0")}
	}
	if verifChoice("M.len", 2) == 1 {
		v.M = map[string]string{verifString("Mk", 1): verifString("Mv", 1)}
	}
	if verifChoice("P.nil", 2) == 0 {
		v.P = new(int64)
		*v.P = verifNarrow("P")
	}
	v.B = verifBytes("B", verifChoice("B.len", 2))
}

func verifC12Eq(a, b *verifC12T) bool {
	ok := verifAnd(a.A == b.A, verifStrEq(a.S, b.S))
	ok = verifAnd(ok, len(a.L) == len(b.L) && len(a.M) == len(b.M) && (a.P == nil) == (b.P == nil) && len(a.B) == len(b.B))
	if len(a.L) == 1 && len(b.L) == 1 {
		ok = verifAnd(ok, a.L[0] == b.L[0])
	}
	for k, v := range a.M {
		w, found := b.M[k]
		ok = verifAnd(ok, found && verifStrEq(v, w))
	}
	if a.P != nil && b.P != nil {
		ok = verifAnd(ok, *a.P == *b.P)
	}
	if len(a.B) == len(b.B) {
		ok = verifAnd(ok, refBytesEq(a.B, b.B))
	}
	return ok
}

// verifC12Prime leaves a closed bank in the pool so that the operation under
// test may be handed a recycled one.
func verifC12Prime() {
	if verifChoice("pool-primed", 2) == 1 {
		r := NewReadBuf(nil)
		_ = r.Alloc(int64Type)
		r.ExtractResourceBank().Close()
	}
}

// decoding through a shared codec tree into private memory
func verifHarness_C12_decode_shared_codec() {
	verifAllocMax(4096)
	s, err := SchemaForType(verifC12T{})
	verifAssume(err == nil)
	c, err := s.Codec(verifC12T{})
	verifAssume(err == nil)
	var in verifC12T
	verifC12Fill(&in)
	w := NewWriteBuf(nil)
	c.Write(w, unsafe.Pointer(&in))
	enc := w.Bytes()
	verifC12Prime()
	verifConcurrently(func() {
		out := new(verifC12T)
		r := NewReadBuf(enc)
		err := c.Read(r, unsafe.Pointer(out))
		rb := r.ExtractResourceBank()
		verifAssert(err == nil, "C12:decode-ok")
		if err == nil {
			verifAssert(verifC12Eq(&in, out), "C12:decode-result-as-when-running-alone")
		}
		verifKeepAlive(rb)
	})
	verifReach("end")
}

// encoding through a shared codec tree from a shared (read-only) value into a private buffer
func verifHarness_C12_encode_shared_codec() {
	verifAllocMax(4096)
	s, err := SchemaForType(verifC12T{})
	verifAssume(err == nil)
	c, err := s.Codec(verifC12T{})
	verifAssume(err == nil)
	var in verifC12T
	verifC12Fill(&in)
	ref := NewWriteBuf(nil)
	c.Write(ref, unsafe.Pointer(&in))
	verifConcurrently(func() {
		w := NewWriteBuf(nil)
		c.Write(w, unsafe.Pointer(&in))
		if len(in.M) < 2 {
			verifAssert(refBytesEq(w.Bytes(), ref.Bytes()), "C12:encode-result-as-when-running-alone")
		}
	})
	verifReach("end")
}

// building codecs and schemas consults the registries under their locks only
func verifHarness_C12_build() {
	verifAllocMax(4096)
	verifConcurrently(func() {
		s, err := SchemaForType(verifC12T{})
		var c Codec
		if err == nil {
			c, err = s.Codec(verifC12T{})
		}
		verifAssert(err == nil && c != nil, "C12:build-ok")
	})
	verifReach("end")
}

type verifC12Custom struct{ X int64 }

// registration writes the registries under their write locks only
func verifHarness_C12_register() {
	verifAllocMax(4096)
	typ := reflect.TypeOf(verifC12Custom{})
	f := func(schema Schema, typ reflect.Type, omit bool) (Codec, error) { return Int64Codec{}, nil }
	if verifChoice("already-registered", 2) == 1 {
		Register(typ, f)
		RegisterSchema(typ, Schema{Type: "long"})
	}
	verifConcurrently(func() {
		Register(typ, f)
		RegisterSchema(typ, Schema{Type: "long"})
		// a lookup racing with the registrations above
		_, _ = SchemaForType(struct{ F verifC12Custom }{})
	})
	s, err := SchemaForType(struct{ F verifC12Custom }{})
	verifAssert(err == nil && len(s.Object.Fields) == 1 && s.Object.Fields[0].Type.Type == "long", "C12:registration-took-effect")
	verifReach("end")
}

// reading a whole file with private reader, target and callback
func verifHarness_C12_readfile() {
	verifAllocMax(4096)
	comp := verifCompression(verifChoice("codec", 3))
	f := verifBuildFile(comp, []int{2})
	verifC12Prime()
	verifConcurrently(func() {
		sink := &verifSink{failAt: -1}
		err := ReadFile(&verifReader{buf: f.data}, verifRec{}, sink.cb)
		verifAssert(err == nil && len(sink.got) == 2, "C12:readfile-ok")
		if err == nil && len(sink.got) == 2 {
			verifAssert(verifAnd(verifRecEq(&sink.got[0], &f.recs[0][0]), verifRecEq(&sink.got[1], &f.recs[0][1])), "C12:readfile-result-as-when-running-alone")
		}
	})
	verifReach("end")
}

// closing a bank that was obtained on another goroutine (handed over)
func verifHarness_C12_close_foreign_bank() {
	verifAllocMax(4096)
	r := NewReadBuf(nil)
	p := (*int64)(r.Alloc(int64Type))
	*p = 7
	s := r.rb.ToString([]byte("ab"))
	rb := r.ExtractResourceBank()
	verifMonitor(true)
	verifOwn(rb) // the bank is handed to the closing goroutine
	rb.Close()
	verifMonitor(false)
	verifAssert(*p == 7 && s == "ab", "C12:close-does-not-touch-memory-others-may-still-read")
	verifReach("end")
}

// decoding through shared codec trees of every codec kind: the C05 schema list
// (null, primitives, fixed, record, enum, array, map, nullable and general
// unions) as a field, behind a pointer, as array items and as map values, into
// private targets, and back out of a shared value into a private buffer. Any
// per-call state a codec keeps in itself is a store into shared memory.
func verifHarness_C12_decode_schema_matrix() {
	verifAllocMax(4096)
	all := verifC05Schemas()
	fs := all[verifChoice("schema", len(all))]
	// general unions have no writer (unionCodec.Write panics "not implemented")
	writable := fs.Type != "union" || (len(fs.Union) == 2 && (fs.Union[0].Type == "null" || fs.Union[1].Type == "null"))
	var proto any
	var mk func() unsafe.Pointer
	switch verifChoice("target", 8) {
	case 0:
		proto, mk = &verifC05_field_int64{}, func() unsafe.Pointer { return unsafe.Pointer(new(verifC05_field_int64)) }
	case 1:
		proto, mk = &verifC05_ptr_int64{}, func() unsafe.Pointer { return unsafe.Pointer(new(verifC05_ptr_int64)) }
	case 2:
		proto, mk = &verifC05_slice_int64{}, func() unsafe.Pointer { return unsafe.Pointer(new(verifC05_slice_int64)) }
		fs = Schema{Type: "array", Object: &SchemaObject{Items: fs}}
	case 3:
		proto, mk = &verifC05_map_int64{}, func() unsafe.Pointer { return unsafe.Pointer(new(verifC05_map_int64)) }
		fs = Schema{Type: "map", Object: &SchemaObject{Values: fs}}
	case 4:
		proto, mk = &verifC05_field_string{}, func() unsafe.Pointer { return unsafe.Pointer(new(verifC05_field_string)) }
	case 5:
		proto, mk = &verifC05_map_string{}, func() unsafe.Pointer { return unsafe.Pointer(new(verifC05_map_string)) }
		fs = Schema{Type: "map", Object: &SchemaObject{Values: fs}}
	case 6:
		proto, mk = &verifC05_field_bytes{}, func() unsafe.Pointer { return unsafe.Pointer(new(verifC05_field_bytes)) }
	case 7:
		proto, mk = &verifC05_slice_structX{}, func() unsafe.Pointer { return unsafe.Pointer(new(verifC05_slice_structX)) }
		fs = Schema{Type: "array", Object: &SchemaObject{Items: fs}}
	}
	s := Schema{Type: "record", Object: &SchemaObject{Name: "r", Fields: []SchemaRecordField{{Name: "F", Type: fs}}}}
	c, err := s.Codec(proto)
	if err != nil {
		verifReach("end")
		return
	}
	d := refGen(&s, "d", 0)
	enc := refEncode(&s, &d, nil)
	// the same decode running alone, before any other goroutine exists
	r0 := NewReadBuf(enc)
	v0 := mk()
	alone := c.Read(r0, v0) != nil
	rb0 := r0.ExtractResourceBank()
	verifConcurrently(func() {
		r := NewReadBuf(enc)
		err := c.Read(r, mk())
		rb := r.ExtractResourceBank()
		verifAssert((err != nil) == alone, "C12:decode-result-as-when-running-alone")
		verifKeepAlive(rb)
		if !alone && writable {
			// and encoding a shared, read-only value through the same tree
			w := NewWriteBuf(nil)
			c.Write(w, v0)
		}
	})
	verifKeepAlive(rb0)
	verifReach("end")
}
