package avro

// C14 (narrow claim): the hand-written JSON layer of Schema — MarshalJSONTo and
// UnmarshalJSONFrom — executed for real against a token-level contract model of
// github.com/go-json-experiment/json (engine/jsonmodel.go). Under the engine a
// schema is serialised to a token stream, the stream must be one well-formed
// JSON value, and parsing it back — also with object members in reverse order
// and with unknown attributes inserted — must give an identical schema.
// Natively the same schema goes through the real library (json.Marshal /
// json.Unmarshal, with the key order and extra attributes applied to the text),
// which validates the model on every run.

import (
	"bytes"
	"strings"

	"github.com/go-json-experiment/json/jsontext"
)

// model streams exist under the engine only
func verifJSONEncoder() *jsontext.Encoder                               { return nil }
func verifJSONWellFormed(e *jsontext.Encoder) bool                      { return false }
func verifJSONDecoder(e *jsontext.Encoder, variant int) *jsontext.Decoder { return nil }
func verifJSONDone(d *jsontext.Decoder) bool                            { return false }

var verifC14Names = []string{"", "n"}

// verifGenSchema builds an arbitrary schema of the supported vocabulary: every
// type name, every attribute empty or not, nesting up to depth. To keep the
// family linear in the depth, each composite has one freely chosen child and
// fixed simple siblings.
func verifGenSchema(tag string, depth int) Schema {
	prim := []string{"null", "long", "string", "bytes"}
	k := verifChoice(tag+".kind", 6)
	if depth == 0 && k > 1 {
		k = verifChoice(tag+".leafkind", 2)
	}
	switch k {
	case 0: // plain primitive name
		return Schema{Type: prim[verifChoice(tag+".prim", len(prim))]}
	case 1: // primitive or fixed / enum with attributes (object form)
		o := &SchemaObject{}
		s := Schema{Object: o}
		switch verifChoice(tag+".okind", 4) {
		case 0:
			s.Type = "long"
			o.LogicalType = []string{"timestamp-millis", "timestamp-micros", ""}[verifChoice(tag+".logical", 3)]
		case 1:
			s.Type = "int"
			o.LogicalType = "date"
		case 2:
			s.Type = "fixed"
			o.Name = "fx"
			o.Size = int(verifNarrow(tag + ".size"))
			o.Namespace = verifC14Names[verifChoice(tag+".ns", 2)]
			o.LogicalType = []string{"", "decimal"}[verifChoice(tag+".logical", 2)]
		case 3:
			s.Type = "enum"
			o.Name = "en"
			if verifChoice(tag+".syms", 2) == 1 {
				o.Symbols = []string{"A", "B"}
			}
		}
		return s
	case 2: // record: no field, the free child alone, or the free child and a fixed sibling on either side
		o := &SchemaObject{Name: "rec", Namespace: verifC14Names[verifChoice(tag+".ns", 2)], LogicalType: []string{"", "lt"}[verifChoice(tag+".logical", 2)]}
		shape := verifChoice(tag+".fields", 4)
		if shape > 0 {
			child := SchemaRecordField{Name: "f0", Type: verifGenSchema(tag+".f0", depth-1)}
			sib := SchemaRecordField{Name: "f1", Type: Schema{Type: "string"}}
			switch shape {
			case 1:
				o.Fields = []SchemaRecordField{child}
			case 2:
				o.Fields = []SchemaRecordField{child, sib}
			case 3:
				o.Fields = []SchemaRecordField{sib, child}
			}
		}
		return Schema{Type: "record", Object: o}
	case 3: // array
		return Schema{Type: "array", Object: &SchemaObject{Items: verifGenSchema(tag+".items", depth-1)}}
	case 4: // map
		return Schema{Type: "map", Object: &SchemaObject{Values: verifGenSchema(tag+".values", depth-1)}}
	}
	// union: [X], [null,X], [X,null], [null,X,string]
	x := verifGenSchema(tag+".u", depth-1)
	null := Schema{Type: "null"}
	switch verifChoice(tag+".ushape", 4) {
	case 0:
		return Schema{Type: "union", Union: []Schema{x}}
	case 1:
		return Schema{Type: "union", Union: []Schema{null, x}}
	case 2:
		return Schema{Type: "union", Union: []Schema{x, null}}
	}
	return Schema{Type: "union", Union: []Schema{null, x, {Type: "string"}}}
}

func verifC14Depth() int {
	if verifThorough() {
		return 3
	}
	return 2
}

// verifReorderJSON applies the decoder variants to JSON text (native replay):
// 1 = members of every object in reverse order, 2 = unknown attributes added.
func verifReorderJSON(b []byte, variant int) []byte {
	if variant == 0 {
		return b
	}
	var v jsontext.Value = b
	dec := jsontext.NewDecoder(bytes.NewReader(v))
	var out bytes.Buffer
	enc := jsontext.NewEncoder(&out)
	var emit func() bool
	emit = func() bool {
		tok, err := dec.ReadToken()
		if err != nil {
			return false
		}
		switch tok.Kind() {
		case '{':
			type member struct {
				k string
				v jsontext.Value
			}
			var ms []member
			for dec.PeekKind() != '}' {
				kt, err := dec.ReadToken()
				if err != nil {
					return false
				}
				key := kt.String() // a token is only valid until the next decoder call
				val, err := dec.ReadValue()
				if err != nil {
					return false
				}
				ms = append(ms, member{key, val.Clone()})
			}
			dec.ReadToken()
			enc.WriteToken(jsontext.BeginObject)
			if variant == 2 {
				enc.WriteToken(jsontext.String("doc"))
				enc.WriteToken(jsontext.String("x"))
				enc.WriteToken(jsontext.String("aliases"))
				enc.WriteValue(jsontext.Value(`["a"]`))
			}
			for i := range ms {
				m := ms[i]
				if variant == 1 {
					m = ms[len(ms)-1-i]
				}
				enc.WriteToken(jsontext.String(m.k))
				enc.WriteValue(verifReorderJSON(m.v, variant))
			}
			if variant == 2 {
				enc.WriteToken(jsontext.String("default"))
				enc.WriteValue(jsontext.Value(`{"k":1}`))
			}
			enc.WriteToken(jsontext.EndObject)
		case '[':
			enc.WriteToken(jsontext.BeginArray)
			for dec.PeekKind() != ']' {
				val, err := dec.ReadValue()
				if err != nil {
					return false
				}
				enc.WriteValue(verifReorderJSON(val.Clone(), variant))
			}
			dec.ReadToken()
			enc.WriteToken(jsontext.EndArray)
		default:
			enc.WriteToken(tok)
		}
		return true
	}
	if !emit() {
		return b
	}
	return bytes.TrimSpace(out.Bytes())
}

func verifHarness_C14_roundtrip() {
	verifUnwind(200)
	s := verifGenSchema("s", verifC14Depth())
	variant := verifChoice("variant", 3)
	var back Schema
	var perr error
	wellFormed, consumed := false, false
	if verifSymbolic() {
		enc := verifJSONEncoder()
		merr := s.MarshalJSONTo(enc)
		verifAssert(merr == nil, "C14:serialising-a-schema-succeeds")
		wellFormed = verifJSONWellFormed(enc)
		dec := verifJSONDecoder(enc, variant)
		perr = back.UnmarshalJSONFrom(dec)
		consumed = verifJSONDone(dec)
	} else {
		b, merr := s.Marshal()
		verifAssert(merr == nil, "C14:serialising-a-schema-succeeds")
		// the bytes belong to the caller: serialising other schemas afterwards
		// (shorter, equally long, longer) does not change them
		keep := append([]byte(nil), b...)
		for _, o := range []Schema{{Type: "long"}, s, {Type: "array", Object: &SchemaObject{Items: s}}} {
			_, _ = o.Marshal()
		}
		verifAssert(bytes.Equal(keep, b), "C14:serialised-bytes-stay-what-they-were")
		wellFormed = jsontext.Value(b).IsValid()
		text := verifReorderJSON(b, variant)
		var err error
		back, err = SchemaFromString(string(text))
		perr = err
		consumed = err == nil || !strings.Contains(err.Error(), "after top-level value")
	}
	verifAssert(wellFormed, "C14:output-is-one-well-formed-json-value")
	verifAssert(perr == nil, "C14:serialised-schema-parses-back")
	if perr == nil {
		verifAssert(consumed, "C14:parser-consumes-the-whole-document")
		verifAssert(verifSchemaEq(&s, &back), "C14:parsed-schema-is-identical-whatever-the-key-order-and-extra-attributes")
	}
	verifReach("end")
}
