package avro

import "unsafe"

type verifC05Blocks struct {
	G0 [2]byte `json:"-"`
	F  []int64
	G1 [2]byte `json:"-"`
	X  int64   `json:"-"`
}

// Arrays arriving in several blocks of different sizes (1+2, 2+1, 1+3, 3+1,
// with and without byte-size prefixes) into a slice that is nil or already
// populated: every element store must land inside the slice's backing array
// (engine: every access inside its object, strict heap typing), and the result
// has len <= cap.
func verifHarness_C05_array_blocks() {
	verifStrictHeap(true)
	s, err := SchemaForType(verifC05Blocks{})
	verifAssume(err == nil)
	c, err := s.Codec(verifC05Blocks{})
	verifAssume(err == nil)
	n := 3 + verifChoice("n", 2)
	d := refDatum{K: 'r', Items: []refDatum{{K: 'a'}}}
	for i := 0; i < n; i++ {
		d.Items[0].Items = append(d.Items[0].Items, refLong(int64(verifSmall("e"))))
	}
	ch := &refChoices{split: []int{1 + verifChoice("split", n-1)}, sized: []bool{verifNondetBool("sized")}}
	enc := refEncode(&s, &d, ch)
	var out verifC05Blocks
	out.G0, out.G1 = [2]byte{0xA5, 0x5A}, [2]byte{0xA5, 0x5A}
	out.X = 0x1122334455667788
	if verifChoice("prefilled", 2) == 1 {
		out.F = make([]int64, 1, 1+verifChoice("sparecap", 2))
		out.F[0] = 9
	}
	pre := len(out.F)
	r := NewReadBuf(enc)
	err = c.Read(r, unsafe.Pointer(&out))
	verifAssert(err == nil, "C05:multi-block-array-read-ok")
	if err == nil {
		verifAssert(len(out.F) == pre+n && len(out.F) <= cap(out.F), "C05:slice-length-within-its-capacity")
		ok := true
		for i := 0; i < n && pre+i < len(out.F); i++ {
			ok = verifAnd(ok, out.F[pre+i] == d.Items[0].Items[i].I)
		}
		verifAssert(ok, "C05:elements-land-in-the-slice")
	}
	verifAssert(out.G0 == [2]byte{0xA5, 0x5A} && out.G1 == [2]byte{0xA5, 0x5A} && out.X == 0x1122334455667788, "C05:guards-intact")
	verifReach("end")
}

type verifC05Base struct {
	ID    int64
	Score int64
}

type verifC05Embedded struct {
	G0    [2]byte `json:"-"`
	Count uint64
	Name  string
	Spare uint64
	verifC05Base
	G1 [2]byte `json:"-"`
}

type verifC05EmbeddedPtr struct {
	Count uint64
	*verifC05Base
	Name string
}

// Embedded structs: a schema field that exists in the target only as a
// promoted field of an embedded struct must either be decoded into that
// promoted field or skipped - never stored at the embedded struct's field
// offset relative to the outer struct.
func verifHarness_C05_embedded() {
	verifStrictHeap(true)
	s := Schema{Type: "record", Object: &SchemaObject{Name: "r", Fields: []SchemaRecordField{
		{Name: "Name", Type: Schema{Type: "string"}},
		{Name: "ID", Type: Schema{Type: "long"}},
		{Name: "Score", Type: Schema{Type: "long"}},
	}}}
	d := refGen(&s, "d", 0)
	enc := refEncode(&s, &d, nil)
	if verifChoice("variant", 2) == 0 {
		var out verifC05Embedded
		out.G0, out.G1 = [2]byte{0xA5, 0x5A}, [2]byte{0xA5, 0x5A}
		out.Count, out.Spare = 0x1111111111111111, 0x2222222222222222
		c, err := s.Codec(&out)
		if err == nil {
			_ = c.Read(NewReadBuf(enc), unsafe.Pointer(&out))
			verifAssert(out.Count == 0x1111111111111111 && out.Spare == 0x2222222222222222, "C05:sibling-field-untouched")
			verifAssert(out.G0 == [2]byte{0xA5, 0x5A} && out.G1 == [2]byte{0xA5, 0x5A}, "C05:guards-intact")
			verifAssert((out.ID == 0 || out.ID == d.Items[1].I) && (out.Score == 0 || out.Score == d.Items[2].I), "C05:promoted-field-holds-its-own-value-or-nothing")
		}
	} else {
		var out verifC05EmbeddedPtr
		out.Count = 0x1111111111111111
		c, err := s.Codec(&out)
		if err == nil {
			_ = c.Read(NewReadBuf(enc), unsafe.Pointer(&out))
			verifAssert(out.Count == 0x1111111111111111, "C05:sibling-field-untouched")
		}
	}
	verifReach("end")
}

type verifC11Blocks struct {
	F []string
	X int64 `json:"-"`
}

// C11: an array of pointer-carrying elements arriving in several blocks (with
// and without byte-size prefixes) into a nil or populated slice: every backing
// array the decoder grows into must be allocated with the element's layout, so
// that the collector sees the string pointers stored in it (engine: strict
// heap typing; natively: the decoded strings survive collections and churn).
func verifHarness_C11_array_blocks_of_pointers() {
	verifStrictHeap(true)
	s, err := SchemaForType(verifC11Blocks{})
	verifAssume(err == nil)
	c, err := s.Codec(verifC11Blocks{})
	verifAssume(err == nil)
	n := 3 + verifChoice("n", 2)
	d := refDatum{K: 'r', Items: []refDatum{{K: 'a'}}}
	for i := 0; i < n; i++ {
		d.Items[0].Items = append(d.Items[0].Items, refStr(verifBytes("e"+string(rune('0'+i)), 2)))
	}
	ch := &refChoices{split: []int{1 + verifChoice("split", n-1)}, sized: []bool{verifNondetBool("sized")}}
	enc := refEncode(&s, &d, ch)
	var out verifC11Blocks
	if verifChoice("prefilled", 2) == 1 {
		out.F = make([]string, 1, 1+verifChoice("sparecap", 2))
		out.F[0] = "zz"
	}
	pre := len(out.F)
	r := NewReadBuf(enc)
	err = c.Read(r, unsafe.Pointer(&out))
	verifAssert(err == nil, "C11:multi-block-array-read-ok")
	verifGCChurn()
	if err == nil {
		verifAssert(len(out.F) == pre+n && len(out.F) <= cap(out.F), "C11:slice-length-within-its-capacity")
		ok := true
		for i := 0; i < n && pre+i < len(out.F); i++ {
			ok = verifAnd(ok, verifStrEq(out.F[pre+i], string(d.Items[0].Items[i].B)))
		}
		verifAssert(ok, "C11:decoded-value-survives-collections")
	}
	verifKeepAlive(r)
	verifReach("end")
}
