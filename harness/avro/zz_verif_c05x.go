package avro

import "unsafe"

type verifC05Blocks struct {
	G0 [2]byte `json:"-"`
	F  []int64
	G1 [2]byte `json:"-"`
	X  int64   `json:"-"`
}

// Arrays arriving in several blocks of different sizes (1+2, 2+1, 1+3, 3+1,
// with and without byte-size prefixes) into a slice that is nil or already
// populated: every element store must land inside the slice's backing array
// (engine: every access inside its object, strict heap typing), and the result
// has len <= cap.
func verifHarness_C05_array_blocks() {
	verifStrictHeap(true)
	s, err := SchemaForType(verifC05Blocks{})
	verifAssume(err == nil)
	c, err := s.Codec(verifC05Blocks{})
	verifAssume(err == nil)
	n := 3 + verifChoice("n", 2)
	d := refDatum{K: 'r', Items: []refDatum{{K: 'a'}}}
	for i := 0; i < n; i++ {
		d.Items[0].Items = append(d.Items[0].Items, refLong(int64(verifSmall("e"))))
	}
	ch := &refChoices{split: []int{1 + verifChoice("split", n-1)}, sized: []bool{verifNondetBool("sized")}}
	enc := refEncode(&s, &d, ch)
	var out verifC05Blocks
	out.G0, out.G1 = [2]byte{0xA5, 0x5A}, [2]byte{0xA5, 0x5A}
	out.X = 0x1122334455667788
	if verifChoice("prefilled", 2) == 1 {
		out.F = make([]int64, 1, 1+verifChoice("sparecap", 2))
		out.F[0] = 9
	}
	pre := len(out.F)
	r := NewReadBuf(enc)
	err = c.Read(r, unsafe.Pointer(&out))
	verifAssert(err == nil, "C05:multi-block-array-read-ok")
	if err == nil {
		verifAssert(len(out.F) == pre+n && len(out.F) <= cap(out.F), "C05:slice-length-within-its-capacity")
		ok := true
		for i := 0; i < n && pre+i < len(out.F); i++ {
			ok = verifAnd(ok, out.F[pre+i] == d.Items[0].Items[i].I)
		}
		verifAssert(ok, "C05:elements-land-in-the-slice")
	}
	verifAssert(out.G0 == [2]byte{0xA5, 0x5A} && out.G1 == [2]byte{0xA5, 0x5A} && out.X == 0x1122334455667788, "C05:guards-intact")
	verifReach("end")
}

type verifC05Base struct {
	ID    int64
	Score int64
}

type verifC05Embedded struct {
	G0    [2]byte `json:"-"`
	Count uint64
	Name  string
	Spare uint64
	verifC05Base
	G1 [2]byte `json:"-"`
}

type verifC05EmbeddedPtr struct {
	Count uint64
	*verifC05Base
	Name string
}

// Embedded structs: a schema field that exists in the target only as a
// promoted field of an embedded struct must either be decoded into that
// promoted field or skipped - never stored at the embedded struct's field
// offset relative to the outer struct.
func verifHarness_C05_embedded() {
	verifStrictHeap(true)
	s := Schema{Type: "record", Object: &SchemaObject{Name: "r", Fields: []SchemaRecordField{
		{Name: "Name", Type: Schema{Type: "string"}},
		{Name: "ID", Type: Schema{Type: "long"}},
		{Name: "Score", Type: Schema{Type: "long"}},
	}}}
	d := refGen(&s, "d", 0)
	enc := refEncode(&s, &d, nil)
	if verifChoice("variant", 2) == 0 {
		var out verifC05Embedded
		out.G0, out.G1 = [2]byte{0xA5, 0x5A}, [2]byte{0xA5, 0x5A}
		out.Count, out.Spare = 0x1111111111111111, 0x2222222222222222
		c, err := s.Codec(&out)
		if err == nil {
			_ = c.Read(NewReadBuf(enc), unsafe.Pointer(&out))
			verifAssert(out.Count == 0x1111111111111111 && out.Spare == 0x2222222222222222, "C05:sibling-field-untouched")
			verifAssert(out.G0 == [2]byte{0xA5, 0x5A} && out.G1 == [2]byte{0xA5, 0x5A}, "C05:guards-intact")
			verifAssert((out.ID == 0 || out.ID == d.Items[1].I) && (out.Score == 0 || out.Score == d.Items[2].I), "C05:promoted-field-holds-its-own-value-or-nothing")
		}
	} else {
		var out verifC05EmbeddedPtr
		out.Count = 0x1111111111111111
		c, err := s.Codec(&out)
		if err == nil {
			_ = c.Read(NewReadBuf(enc), unsafe.Pointer(&out))
			verifAssert(out.Count == 0x1111111111111111, "C05:sibling-field-untouched")
		}
	}
	verifReach("end")
}

type verifC11Blocks struct {
	F []string
	X int64 `json:"-"`
}

// C11: an array of pointer-carrying elements arriving in several blocks (with
// and without byte-size prefixes) into a nil or populated slice: every backing
// array the decoder grows into must be allocated with the element's layout, so
// that the collector sees the string pointers stored in it (engine: strict
// heap typing; natively: the decoded strings survive collections and churn).
func verifHarness_C11_array_blocks_of_pointers() {
	verifStrictHeap(true)
	s, err := SchemaForType(verifC11Blocks{})
	verifAssume(err == nil)
	c, err := s.Codec(verifC11Blocks{})
	verifAssume(err == nil)
	n := 3 + verifChoice("n", 2)
	d := refDatum{K: 'r', Items: []refDatum{{K: 'a'}}}
	for i := 0; i < n; i++ {
		d.Items[0].Items = append(d.Items[0].Items, refStr(verifBytes("e"+string(rune('0'+i)), 2)))
	}
	ch := &refChoices{split: []int{1 + verifChoice("split", n-1)}, sized: []bool{verifNondetBool("sized")}}
	enc := refEncode(&s, &d, ch)
	var out verifC11Blocks
	if verifChoice("prefilled", 2) == 1 {
		out.F = make([]string, 1, 1+verifChoice("sparecap", 2))
		out.F[0] = "zz"
	}
	pre := len(out.F)
	r := NewReadBuf(enc)
	err = c.Read(r, unsafe.Pointer(&out))
	verifAssert(err == nil, "C11:multi-block-array-read-ok")
	verifGCChurn()
	if err == nil {
		verifAssert(len(out.F) == pre+n && len(out.F) <= cap(out.F), "C11:slice-length-within-its-capacity")
		ok := true
		for i := 0; i < n && pre+i < len(out.F); i++ {
			ok = verifAnd(ok, verifStrEq(out.F[pre+i], string(d.Items[0].Items[i].B)))
		}
		verifAssert(ok, "C11:decoded-value-survives-collections")
	}
	verifKeepAlive(r)
	verifReach("end")
}

// C06 / C05: an array whose later block declares ANY count (every int64,
// positive or size-prefixed negative) after a first block that already put
// items into the slice: the count is added to the current length before the
// slice is grown. Whatever the declared count, the decoder returns a value or
// an error, and every item it stores lands inside the slice's backing array
// (engine: every access inside its object).
func verifHarness_C06_array_later_block_count() {
	verifAllocMax(64)
	verifUnwind(16)
	s, err := SchemaForType(verifC05Blocks{})
	verifAssume(err == nil)
	c, err := s.Codec(verifC05Blocks{})
	verifAssume(err == nil)
	n1 := 1 + verifChoice("first", 2)
	buf := refZZ(int64(n1))
	for i := 0; i < n1; i++ {
		buf = append(buf, refZZ(int64(verifSmall("a")))...)
	}
	count := verifNondetI64("count")
	buf = append(buf, refZZ(count)...)
	if count < 0 {
		buf = append(buf, refZZ(int64(verifSmall("blocksize")))...)
	}
	// up to three one-byte items follow, then the input ends or the array is closed
	k := verifChoice("items", 4)
	for i := 0; i < k; i++ {
		buf = append(buf, refZZ(int64(verifSmall("b")))...)
	}
	if verifChoice("terminated", 2) == 1 {
		buf = append(buf, 0)
	}
	var out verifC05Blocks
	out.G0, out.G1 = [2]byte{0xA5, 0x5A}, [2]byte{0xA5, 0x5A}
	out.X = 0x1122334455667788
	r := NewReadBuf(buf)
	err = c.Read(r, unsafe.Pointer(&out))
	verifObserveBool("err", err != nil)
	verifAssert(len(out.F) <= cap(out.F), "C06:slice-length-within-its-capacity")
	verifAssert(out.G0 == [2]byte{0xA5, 0x5A} && out.G1 == [2]byte{0xA5, 0x5A} && out.X == 0x1122334455667788, "C06:guards-intact")
	verifReach("end")
}

// C06: every single-field mutation of a valid encoding. A valid encoding of an
// arbitrary datum (collections sent as two blocks, plain or size-prefixed) is
// produced by the reference encoder with ONE of its structural varints - a
// string / bytes / map-key length, a block count, a block byte size, a union
// selector, the terminator - replaced by an arbitrary value of one of four
// classes: one byte (-64..63), two bytes, near MaxInt64, near MinInt64 (ten
// bytes; sums with lengths and offsets overflow). Decoding it - read path
// into a matching target, skip path into an empty struct - returns a value or
// an error: no panic, no access outside an object, loops and allocations
// bounded by the input.
func verifHarness_C06_field_mutation() {
	str, lng, null := Schema{Type: "string"}, Schema{Type: "long"}, Schema{Type: "null"}
	arr := func(x Schema) Schema { return Schema{Type: "array", Object: &SchemaObject{Items: x}} }
	mp := func(x Schema) Schema { return Schema{Type: "map", Object: &SchemaObject{Values: x}} }
	un := func(x ...Schema) Schema { return Schema{Type: "union", Union: x} }
	var fs Schema
	var proto any
	var mk func() unsafe.Pointer
	pairs := []int{0, 3, 5, 6, 9}
	if verifThorough() {
		pairs = []int{0, 1, 2, 3, 4, 5, 6, 7, 8, 9}
	}
	switch pairs[verifChoice("pair", len(pairs))] {
	case 0:
		fs, proto, mk = str, &verifC05_field_string{}, func() unsafe.Pointer { return unsafe.Pointer(new(verifC05_field_string)) }
	case 1:
		fs, proto, mk = Schema{Type: "bytes"}, &verifC05_field_bytes{}, func() unsafe.Pointer { return unsafe.Pointer(new(verifC05_field_bytes)) }
	case 2:
		fs, proto, mk = arr(str), &verifC05_slice_string{}, func() unsafe.Pointer { return unsafe.Pointer(new(verifC05_slice_string)) }
	case 3:
		fs, proto, mk = arr(lng), &verifC05_slice_int64{}, func() unsafe.Pointer { return unsafe.Pointer(new(verifC05_slice_int64)) }
	case 4:
		fs, proto, mk = mp(lng), &verifC05_map_int64{}, func() unsafe.Pointer { return unsafe.Pointer(new(verifC05_map_int64)) }
	case 5:
		fs, proto, mk = mp(str), &verifC05_map_string{}, func() unsafe.Pointer { return unsafe.Pointer(new(verifC05_map_string)) }
	case 6:
		fs, proto, mk = un(null, str), &verifC05_ptr_string{}, func() unsafe.Pointer { return unsafe.Pointer(new(verifC05_ptr_string)) }
	case 7:
		fs, proto, mk = un(lng, null), &verifC05_ptr_int64{}, func() unsafe.Pointer { return unsafe.Pointer(new(verifC05_ptr_int64)) }
	case 8:
		fs, proto, mk = arr(un(null, lng)), &verifC05_slice_ptrI64{}, func() unsafe.Pointer { return unsafe.Pointer(new(verifC05_slice_ptrI64)) }
	case 9:
		// general union: only the skip path exists for it
		fs = un(null, str, lng)
	}
	if proto == nil || verifChoice("skip", 2) == 1 {
		var empty struct{}
		proto, mk = &empty, func() unsafe.Pointer { return unsafe.Pointer(new(struct{})) }
	}
	s := Schema{Type: "record", Object: &SchemaObject{Name: "r", Fields: []SchemaRecordField{{Name: "F", Type: fs}, {Name: "Z", Type: lng}}}}
	c, err := s.Codec(proto)
	verifAssume(err == nil)
	d := refGenNarrow(&s, "d", 0)
	sized := verifChoice("sized", 2) == 1
	_, nvar := refEncodeMutated(&s, &d, &refChoices{split: []int{1}, sized: []bool{sized}}, -1, 0)
	verifAssume(nvar > 0)
	at := verifChoice("at", nvar)
	var val int64
	switch verifChoice("class", 4) {
	case 0:
		val = int64(int8(verifNondetU8("val"))) >> 1 // -64..63
	case 1:
		val = int64(int16(verifNondetU16("val")) >> 3) // two bytes at most
	case 2:
		val = 9223372036854775807 - int64(verifNondetU16("val"))
	case 3:
		val = -9223372036854775808 + int64(verifNondetU16("val"))
	}
	enc, _ := refEncodeMutated(&s, &d, &refChoices{split: []int{1}, sized: []bool{sized}}, at, val)
	n := len(enc)
	verifUnwind(2*n + 8)
	verifAllocMax(n + 4)
	r := NewReadBuf(enc)
	err = c.Read(r, mk())
	verifObserveBool("err", err != nil)
	verifKeepAlive(r)
	verifReach("end")
}

// C03: collections whose items occupy zero bytes on the wire (null, fixed of
// size 0, a record without fields): the datum is a count followed by nothing
// but the terminator, wherever it sits - as the last thing in the buffer or
// followed by more fields. It decodes (and is skipped) like any other.
func verifHarness_C03_zero_byte_items() {
	verifAllocMax(64)
	null := Schema{Type: "null"}
	fixed0 := Schema{Type: "fixed", Object: &SchemaObject{Name: "f0", Size: 0}}
	empty := Schema{Type: "record", Object: &SchemaObject{Name: "e"}}
	var fs Schema
	var proto any
	var mk func() unsafe.Pointer
	var length func(p unsafe.Pointer) int
	switch verifChoice("pair", 4) {
	case 0:
		fs = Schema{Type: "array", Object: &SchemaObject{Items: null}}
		proto, mk = &verifC05_slice_int64{}, func() unsafe.Pointer { return unsafe.Pointer(new(verifC05_slice_int64)) }
		length = func(p unsafe.Pointer) int { return len((*verifC05_slice_int64)(p).F) }
	case 1:
		fs = Schema{Type: "array", Object: &SchemaObject{Items: fixed0}}
		proto, mk = &verifC05_slice_arr0{}, func() unsafe.Pointer { return unsafe.Pointer(new(verifC05_slice_arr0)) }
		length = func(p unsafe.Pointer) int { return len((*verifC05_slice_arr0)(p).F) }
	case 2:
		fs = Schema{Type: "array", Object: &SchemaObject{Items: empty}}
		proto, mk = &verifC03EmptyItems{}, func() unsafe.Pointer { return unsafe.Pointer(new(verifC03EmptyItems)) }
		length = func(p unsafe.Pointer) int { return len((*verifC03EmptyItems)(p).F) }
	case 3:
		fs = Schema{Type: "array", Object: &SchemaObject{Items: null}}
		var e struct{}
		proto, mk = &e, func() unsafe.Pointer { return unsafe.Pointer(new(struct{})) }
	}
	fields := []SchemaRecordField{{Name: "F", Type: fs}}
	trailing := verifChoice("trailing-field", 2) == 1
	if trailing {
		fields = append(fields, SchemaRecordField{Name: "X", Type: Schema{Type: "long"}})
	}
	s := Schema{Type: "record", Object: &SchemaObject{Name: "r", Fields: fields}}
	c, err := s.Codec(proto)
	verifAssume(err == nil)
	n := verifChoice("items", 5)
	x := int64(verifSmall("x"))
	// items of every kind here encode to nothing, so one shape serves all
	var enc []byte
	split := verifChoice("split", 2)
	if n > 0 {
		first := n
		if split == 1 && n > 1 {
			first = 1
		}
		if verifChoice("sized", 2) == 1 {
			enc = append(enc, refZZ(-int64(first))...)
			enc = append(enc, 0)
		} else {
			enc = append(enc, refZZ(int64(first))...)
		}
		if first < n {
			enc = append(enc, refZZ(int64(n-first))...)
		}
	}
	enc = append(enc, 0)
	if trailing {
		enc = append(enc, refZZ(x)...)
	}
	out := mk()
	r := NewReadBuf(enc)
	err = c.Read(r, out)
	verifAssert(err == nil, "C03:read-ok")
	if err == nil {
		verifAssert(r.Len() == 0, "C03:consumes-all")
		if length != nil {
			verifAssert(length(out) == n, "C03:decoded-value-is-the-datum")
		}
	}
	verifReach("end")
}

type verifC03EmptyItems struct {
	F []struct{}
	X int64
}

type verifC04Tail struct {
	Z int64
}

type verifC04Full struct {
	F []int64
	M map[string]int64
	Z int64
}

// C04 / C03: a collection written as several blocks of which some carry a
// byte size and some do not, in every order (sized-plain, plain-sized, ...).
// Skipping it (the target lacks the field) consumes exactly what decoding it
// does: the field after it arrives intact, and decoding yields all the items.
func verifHarness_C04_mixed_blocks() {
	verifAllocMax(64)
	s, err := SchemaForType(verifC04Full{})
	verifAssume(err == nil)
	cfull, err := s.Codec(verifC04Full{})
	verifAssume(err == nil)
	ctail, err := s.Codec(verifC04Tail{})
	verifAssume(err == nil)
	nblocks := 2 + verifChoice("blocks", 2)
	block := func(tag string, isMap bool) (enc []byte, n int) {
		for b := 0; b < nblocks; b++ {
			k := 1 + verifChoice(tag+".items", 2)
			var body []byte
			for i := 0; i < k; i++ {
				if isMap {
					body = append(body, 2, byte('a'+n))
				}
				body = append(body, refZZ(int64(verifSmall(tag)))...)
				n++
			}
			if verifChoice(tag+".sized", 2) == 1 {
				enc = append(enc, refZZ(-int64(k))...)
				enc = append(enc, refZZ(int64(len(body)))...)
			} else {
				enc = append(enc, refZZ(int64(k))...)
			}
			enc = append(enc, body...)
		}
		return append(enc, 0), n
	}
	var enc []byte
	arr, na := block("F", false)
	enc = append(enc, arr...)
	nm := 0
	if verifChoice("with-map", 2) == 1 {
		var m []byte
		m, nm = block("M", true)
		enc = append(enc, m...)
	} else {
		enc = append(enc, 0)
	}
	z := int64(verifSmall("z"))
	enc = append(enc, refZZ(z)...)
	var full verifC04Full
	r := NewReadBuf(enc)
	err = cfull.Read(r, unsafe.Pointer(&full))
	verifAssert(err == nil && r.Len() == 0, "C03:read-ok")
	if err == nil {
		verifAssert(len(full.F) == na && len(full.M) == nm && full.Z == z, "C03:decoded-value-is-the-datum")
	}
	var tail verifC04Tail
	r2 := NewReadBuf(enc)
	err = ctail.Read(r2, unsafe.Pointer(&tail))
	verifAssert(err == nil, "C04:skip-ok")
	if err == nil {
		verifAssert(r2.Len() == 0, "C04:skip-consumes-all")
		verifAssert(tail.Z == z, "C04:remaining-field-unchanged-by-projection")
	}
	verifKeepAlive(r)
	verifReach("end")
}
