package avro

// C15: schema generation is total, deterministic and follows the documented
// mapping. The reference mapping below is a transcription of the property
// text; it is applied (a) to symbolic type descriptors — reflect.Type values
// whose kind, structure, tags and registration are solver/decision variables —
// and (b) to every concrete catalogue type, which also validates the engine's
// reflect model and the reference itself natively.

import (
	"reflect"
)

func refSplit(s string, sep byte) []string {
	var out []string
	start := 0
	for i := 0; i < len(s); i++ {
		if s[i] == sep {
			out = append(out, s[start:i])
			start = i + 1
		}
	}
	return append(out, s[start:])
}

func refReplace(s string, from, to byte) string {
	b := []byte(s)
	for i := range b {
		if b[i] == from {
			b[i] = to
		}
	}
	return string(b)
}

const (
	refOK          = 0
	refUnsupported = 1 // the type cannot be expressed: an error is required
	refCyclic      = 2 // self-referential: an error is required (not divergence)
	refUnspecified = 3 // the documented mapping does not say (e.g. non-string map keys)
)

type verifRegEntry struct {
	t reflect.Type
	s Schema
}

var verifC15Reg []verifRegEntry

func refRegistered(t reflect.Type) (Schema, bool) {
	for i := range verifC15Reg {
		if verifC15Reg[i].t == t {
			return verifC15Reg[i].s, true
		}
	}
	return Schema{}, false
}

func refJSONName(f reflect.StructField) (name string, omit bool, skip bool) {
	if f.PkgPath != "" {
		return "", false, true
	}
	if f.Tag.Get("bq") == "-" {
		return "", false, true
	}
	tag := f.Tag.Get("json")
	parts := refSplit(tag, ',')
	name = parts[0]
	if name == "-" {
		return "", false, true
	}
	if name == "" {
		name = f.Name
	}
	for _, o := range parts[1:] {
		if o == "omitempty" {
			omit = true
		}
	}
	return name, omit, false
}

func refNullable(s Schema) Schema {
	return Schema{Type: "union", Union: []Schema{{Type: "null"}, s}}
}

// refSchemaFor: the documented mapping from Go types to schemas.
func refSchemaFor(t reflect.Type, visiting []reflect.Type) (Schema, int) {
	if s, ok := refRegistered(t); ok {
		return s, refOK
	}
	for _, v := range visiting {
		if v == t {
			return Schema{}, refCyclic
		}
	}
	visiting = append(visiting, t)
	switch t.Kind() {
	case reflect.Bool:
		return Schema{Type: "boolean"}, refOK
	case reflect.Int, reflect.Int8, reflect.Int16, reflect.Int32, reflect.Int64:
		return Schema{Type: "long"}, refOK
	case reflect.Float32, reflect.Float64:
		return Schema{Type: "double"}, refOK
	case reflect.String:
		return Schema{Type: "string"}, refOK
	case reflect.Slice, reflect.Array:
		if t.Elem().Kind() == reflect.Uint8 {
			if _, ok := refRegistered(t.Elem()); !ok {
				return Schema{Type: "bytes"}, refOK
			}
			return Schema{}, refUnspecified
		}
		it, c := refSchemaFor(t.Elem(), visiting)
		if c != refOK {
			return Schema{}, c
		}
		return Schema{Type: "array", Object: &SchemaObject{Items: it}}, refOK
	case reflect.Map:
		if t.Key().Kind() != reflect.String {
			return Schema{}, refUnspecified
		}
		vs, c := refSchemaFor(t.Elem(), visiting)
		if c != refOK {
			return Schema{}, c
		}
		return Schema{Type: "map", Object: &SchemaObject{Values: vs}}, refOK
	case reflect.Pointer:
		u, c := refSchemaFor(t.Elem(), visiting)
		if c != refOK {
			return Schema{}, c
		}
		if u.Type == "union" || u.Type == "array" || u.Type == "map" {
			return u, refOK
		}
		return refNullable(u), refOK
	case reflect.Struct:
		var fields []SchemaRecordField
		for i := 0; i < t.NumField(); i++ {
			f := t.Field(i)
			name, omit, skip := refJSONName(f)
			if skip {
				continue
			}
			fs, c := refSchemaFor(f.Type, visiting)
			if c != refOK {
				return Schema{}, c
			}
			if omit && fs.Type != "union" {
				fs = refNullable(fs)
			}
			fields = append(fields, SchemaRecordField{Name: name, Type: fs})
		}
		ns := refReplace(refReplace(t.PkgPath(), '/', '.'), '-', '_')
		return Schema{Type: "record", Object: &SchemaObject{Name: t.Name(), Namespace: ns, Fields: fields}}, refOK
	}
	return Schema{}, refUnsupported
}

// refSchemaValid: unions never nest directly or repeat a branch; every named
// type is defined once.
func refSchemaValid(s *Schema, names *[]string, inUnion bool) (ok bool, dupName bool) {
	ok = true
	switch s.Type {
	case "union":
		if inUnion {
			return false, false
		}
		for i := range s.Union {
			for j := 0; j < i; j++ {
				if s.Union[i].Type == s.Union[j].Type && s.Union[i].Object == nil && s.Union[j].Object == nil {
					return false, false
				}
			}
			o, d := refSchemaValid(&s.Union[i], names, true)
			ok = ok && o
			dupName = dupName || d
		}
	case "record":
		full := s.Object.Namespace + "." + s.Object.Name
		for _, n := range *names {
			if n == full {
				dupName = true
			}
		}
		*names = append(*names, full)
		for i := range s.Object.Fields {
			o, d := refSchemaValid(&s.Object.Fields[i].Type, names, false)
			ok = ok && o
			dupName = dupName || d
		}
	case "array":
		return refSchemaValid(&s.Object.Items, names, false)
	case "map":
		return refSchemaValid(&s.Object.Values, names, false)
	}
	return ok, dupName
}

func verifC15Check(t reflect.Type, p string) {
	s, err := schemaForType(t)
	want, class := refSchemaFor(t, nil)
	switch class {
	case refOK:
		verifAssert(err == nil, p+":supported-type-yields-a-schema")
		if err == nil {
			verifAssert(verifSchemaEq(&s, &want), p+":schema-follows-the-documented-mapping")
			var names []string
			ok, dup := refSchemaValid(&s, &names, false)
			verifAssert(ok, p+":unions-never-nest-or-repeat-a-branch")
			verifAssert(!dup, p+":every-named-type-is-defined-once")
		}
	case refUnsupported:
		verifAssert(err != nil, p+":inexpressible-type-is-an-error")
	case refCyclic:
		verifAssert(err != nil, p+":self-referential-type-is-an-error")
	}
	// deterministic: asking again gives the same answer
	s2, err2 := schemaForType(t)
	verifAssert((err == nil) == (err2 == nil), p+":deterministic-error")
	if err == nil && err2 == nil {
		verifAssert(verifSchemaEq(&s, &s2), p+":deterministic-schema")
	}
	// the result is a schema for which a codec is built or refused, never a panic
	if err == nil {
		c, cerr := buildCodec(s, t, false)
		verifAssert((c != nil) != (cerr != nil), p+":codec-built-or-refused-with-an-error")
	}
}

// Symbolic types. Every node's kind is a solver variable over all 26 reflect
// kinds; element / key / field edges, exportedness, tags, sharing of one node
// in two field positions and cycles through pointer / slice / map edges are
// decided by forking; one node may carry a registered schema (plain, or
// already a union).
//
// single: a struct with 0..1 fields, all 7 tag shapes, up to 3 further type
// nodes below the field (thorough 4) — depth;
// pair:   a struct with 0..2 fields, 2 tag shapes (none / name+omitempty), up
// to 2 further nodes (thorough 3) — order, sharing, the same type twice, and
// the history generate / register a type inside / generate again.
func verifC15Symbolic(maxFields, tags, nodes int, history bool) {
	verifNoValidate()
	if !verifSymbolic() {
		verifReach("end")
		return
	}
	verifMaxDepth(60)
	verifFlag("sym.maxfields", maxFields)
	verifFlag("sym.tags", tags)
	ns := verifTypeNodes("t", nodes)
	root := ns[0]
	verifAssume(root.Kind() == reflect.Struct)
	reg := verifChoice("registered", 3)
	if history && reg != 0 && verifChoice("generated-before-registration", 2) == 1 {
		// history: a schema is generated, then a type inside it is registered,
		// then it is generated again (a late RegisterCodecs / RegisterSchema)
		schemaForType(root)
	}
	switch reg {
	case 1:
		rs := Schema{Type: "string"}
		RegisterSchema(ns[1], rs)
		verifC15Reg = append(verifC15Reg, verifRegEntry{ns[1], rs})
	case 2:
		rs := refNullable(Schema{Type: "long"})
		RegisterSchema(ns[1], rs)
		verifC15Reg = append(verifC15Reg, verifRegEntry{ns[1], rs})
	}
	verifReach("end")
	verifC15Check(root, "C15")
}

func verifHarness_C15_symbolic_single() {
	n := 4
	if verifThorough() {
		n = 5
	}
	verifC15Symbolic(1, 7, n, false)
}

func verifHarness_C15_symbolic_pair() {
	n := 3
	if verifThorough() {
		n = 4
	}
	verifC15Symbolic(2, 2, n, true)
}

type verifRecursive struct {
	V    int64
	Next *verifRecursive
}

type verifRecursiveSlice struct {
	Kids []verifRecursiveSlice
}

type verifTwice struct {
	A verifInner
	B verifInner
}

type verifEmbedded struct {
	verifInner
	Z int64
}

type verifUnsupported1 struct{ A uint32 }
type verifUnsupported2 struct{ A chan int }
type verifUnsupported3 struct{ A any }
type verifUnsupported4 struct{ A complex128 }
type verifUnsupported5 struct{ A []func() }
type verifArrayField struct {
	A [3]int64
	B [4]byte
}

// Self-referential types: engine only (on the pinned behaviour the native
// process would die of a stack overflow).
func verifHarness_C15_recursive() {
	verifNoValidate()
	if !verifSymbolic() {
		verifReach("start")
		return
	}
	verifMaxDepth(60)
	var v any
	if verifChoice("type", 2) == 0 {
		v = verifRecursive{}
	} else {
		v = verifRecursiveSlice{}
	}
	verifReach("start")
	verifC15Check(reflect.TypeOf(v), "C15")
}

// Concrete special shapes plus every catalogue type: also validates the
// engine's reflect model and the reference mapping natively.
func verifHarness_C15_concrete() {
	special := []any{verifTwice{}, verifEmbedded{}, verifUnsupported1{}, verifUnsupported2{}, verifUnsupported3{}, verifUnsupported4{}, verifUnsupported5{}, verifArrayField{}}
	all := append(special, verifC15Catalogue()...)
	v := all[verifChoice("type", len(all))]
	verifC15Check(reflect.TypeOf(v), "C15")
	verifReach("end")
}
