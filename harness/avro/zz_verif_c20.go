package avro

// C20: custom codecs registered for three kinds of type (struct, named
// integer, named slice). Their wire form starts with a marker byte so that
// "the custom codec ran here" is visible in the bytes.

import (
	"errors"
	"reflect"
	"unsafe"
)

type verifCustomS struct{ A, B int32 }
type verifCustomI int64
type verifCustomL []byte
type verifCustomT string

// structurally identical, never registered
type verifTwinS struct{ A, B int32 }
type verifTwinI int64

var (
	verifCustomSType = reflect.TypeOf(verifCustomS{})
	verifCustomIType = reflect.TypeOf(verifCustomI(0))
	verifCustomLType = reflect.TypeOf(verifCustomL(nil))
	verifCustomTType = reflect.TypeOf(verifCustomT(""))
)

var errVerifMarker = errors.New("verif: custom marker missing")

// verifMarkS: fixed(9) = marker, A little-endian, B little-endian
type verifMarkS struct{ mark byte }

func (c verifMarkS) Read(r *ReadBuf, p unsafe.Pointer) error {
	b, err := r.Next(9)
	if err != nil {
		return err
	}
	if b[0] != c.mark {
		return errVerifMarker
	}
	v := (*verifCustomS)(p)
	v.A = int32(uint32(b[1]) | uint32(b[2])<<8 | uint32(b[3])<<16 | uint32(b[4])<<24)
	v.B = int32(uint32(b[5]) | uint32(b[6])<<8 | uint32(b[7])<<16 | uint32(b[8])<<24)
	return nil
}
func (c verifMarkS) Skip(r *ReadBuf) error             { return skip(r, 9) }
func (c verifMarkS) New(r *ReadBuf) unsafe.Pointer     { return r.Alloc(verifCustomSType) }
func (c verifMarkS) Omit(p unsafe.Pointer) bool        { return false }
func (c verifMarkS) Write(w *WriteBuf, p unsafe.Pointer) {
	v := (*verifCustomS)(p)
	a, b := uint32(v.A), uint32(v.B)
	w.Write([]byte{c.mark, byte(a), byte(a >> 8), byte(a >> 16), byte(a >> 24), byte(b), byte(b >> 8), byte(b >> 16), byte(b >> 24)})
}

// verifMarkI: fixed(9) = marker + 8 bytes little-endian
type verifMarkI struct{ mark byte }

func (c verifMarkI) Read(r *ReadBuf, p unsafe.Pointer) error {
	b, err := r.Next(9)
	if err != nil {
		return err
	}
	if b[0] != c.mark {
		return errVerifMarker
	}
	var u uint64
	for i := 0; i < 8; i++ {
		u |= uint64(b[1+i]) << (8 * uint(i))
	}
	*(*verifCustomI)(p) = verifCustomI(u)
	return nil
}
func (c verifMarkI) Skip(r *ReadBuf) error         { return skip(r, 9) }
func (c verifMarkI) New(r *ReadBuf) unsafe.Pointer { return r.Alloc(verifCustomIType) }
func (c verifMarkI) Omit(p unsafe.Pointer) bool    { return false }
func (c verifMarkI) Write(w *WriteBuf, p unsafe.Pointer) {
	u := uint64(*(*verifCustomI)(p))
	out := []byte{c.mark}
	for i := 0; i < 8; i++ {
		out = append(out, byte(u>>(8*uint(i))))
	}
	w.Write(out)
}

// verifMarkL: bytes = varint(len+1) marker payload
type verifMarkL struct{ mark byte }

func (c verifMarkL) Read(r *ReadBuf, p unsafe.Pointer) error {
	l, err := r.Varint()
	if err != nil {
		return err
	}
	if l < 1 {
		return errVerifMarker
	}
	b, err := r.Next(int(l))
	if err != nil {
		return err
	}
	if b[0] != c.mark {
		return errVerifMarker
	}
	out := make([]byte, l-1)
	copy(out, b[1:])
	*(*verifCustomL)(p) = out
	return nil
}
func (c verifMarkL) Skip(r *ReadBuf) error {
	l, err := r.Varint()
	if err != nil {
		return err
	}
	return skip(r, l)
}
func (c verifMarkL) New(r *ReadBuf) unsafe.Pointer { return r.Alloc(verifCustomLType) }
func (c verifMarkL) Omit(p unsafe.Pointer) bool    { return false }
func (c verifMarkL) Write(w *WriteBuf, p unsafe.Pointer) {
	v := *(*verifCustomL)(p)
	w.Varint(int64(len(v)) + 1)
	w.Byte(c.mark)
	w.Write(v)
}

// verifMarkT: string = varint(len+1) marker text. A named string: its Go kind
// is string, so only the registry distinguishes it from a plain string.
type verifMarkT struct{ mark byte }

func (c verifMarkT) Read(r *ReadBuf, p unsafe.Pointer) error {
	l, err := r.Varint()
	if err != nil {
		return err
	}
	if l < 1 {
		return errVerifMarker
	}
	b, err := r.Next(int(l))
	if err != nil {
		return err
	}
	if b[0] != c.mark {
		return errVerifMarker
	}
	*(*verifCustomT)(p) = verifCustomT(string(b[1:]))
	return nil
}
func (c verifMarkT) Skip(r *ReadBuf) error {
	l, err := r.Varint()
	if err != nil {
		return err
	}
	return skip(r, l)
}
func (c verifMarkT) New(r *ReadBuf) unsafe.Pointer { return r.Alloc(verifCustomTType) }
func (c verifMarkT) Omit(p unsafe.Pointer) bool    { return false }
func (c verifMarkT) Write(w *WriteBuf, p unsafe.Pointer) {
	v := *(*verifCustomT)(p)
	w.Varint(int64(len(v)) + 1)
	w.Byte(c.mark)
	w.Write([]byte(v))
}

func verifMarkBytesT(mark byte, v *verifCustomT) []byte {
	return append([]byte{mark}, []byte(*v)...)
}

var verifSchemaS = Schema{Type: "fixed", Object: &SchemaObject{Name: "customS", Size: 9}}
var verifSchemaI = Schema{Type: "fixed", Object: &SchemaObject{Name: "customI", Size: 9}}
var verifSchemaL = Schema{Type: "bytes"}

// verifRegisterCustom registers the three custom codecs with the given marker.
func verifRegisterCustom(mark byte) {
	Register(verifCustomSType, func(schema Schema, typ reflect.Type, omit bool) (Codec, error) { return verifMarkS{mark}, nil })
	Register(verifCustomIType, func(schema Schema, typ reflect.Type, omit bool) (Codec, error) { return verifMarkI{mark}, nil })
	Register(verifCustomLType, func(schema Schema, typ reflect.Type, omit bool) (Codec, error) { return verifMarkL{mark}, nil })
	Register(verifCustomTType, func(schema Schema, typ reflect.Type, omit bool) (Codec, error) { return verifMarkT{mark}, nil })
	RegisterSchema(verifCustomTType, Schema{Type: "string"})
	RegisterSchema(verifCustomSType, verifSchemaS)
	RegisterSchema(verifCustomIType, verifSchemaI)
	RegisterSchema(verifCustomLType, verifSchemaL)
}

// verifRegisterOrder: "the most recent registration for a type wins", both orders.
func verifRegisterOrder() byte {
	if verifChoice("regorder", 2) == 0 {
		verifRegisterCustom(0x11)
		verifRegisterCustom(0x7e)
		return 0x7e
	}
	verifRegisterCustom(0x7e)
	verifRegisterCustom(0x11)
	return 0x11
}

// expected marker encodings (used by the generated datum functions)
func verifMarkBytesS(mark byte, v *verifCustomS) []byte {
	a, b := uint32(v.A), uint32(v.B)
	return []byte{mark, byte(a), byte(a >> 8), byte(a >> 16), byte(a >> 24), byte(b), byte(b >> 8), byte(b >> 16), byte(b >> 24)}
}

func verifMarkBytesI(mark byte, v *verifCustomI) []byte {
	u := uint64(*v)
	out := []byte{mark}
	for i := 0; i < 8; i++ {
		out = append(out, byte(u>>(8*uint(i))))
	}
	return out
}

func verifMarkBytesL(mark byte, v *verifCustomL) []byte {
	return append([]byte{mark}, *v...)
}

var verifMark byte
