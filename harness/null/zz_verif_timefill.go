package null

import (
	"time"

	avrotime "github.com/philpearl/avro/time"
)

func init() { avrotime.RegisterCodecs() }

// verifFillTime builds an arbitrary time.Time from symbolic RFC 3339 digits
// (date, time of day, 0 / 3 / 9 fraction digits, Z or a numeric offset) and
// binds its RFC3339Nano text, which is what Time.Format yields for it under
// the engine (natively the real Format runs).
func verifFillTime(p *time.Time, tag string) {
	var s []byte
	dig := func(name string, k int) []int {
		ds := verifBytes(tag+"."+name, k)
		vals := make([]int, k)
		for i := 0; i < k; i++ {
			verifAssume(verifAnd(ds[i] >= '0', ds[i] <= '9'))
			vals[i] = int(ds[i] - '0')
		}
		s = append(s, ds...)
		return vals
	}
	y := dig("year", 4)
	s = append(s, '-')
	mo := dig("month", 2)
	s = append(s, '-')
	d := dig("day", 2)
	s = append(s, 'T')
	h := dig("hour", 2)
	s = append(s, ':')
	mi := dig("min", 2)
	s = append(s, ':')
	sc := dig("sec", 2)
	year := y[0]*1000 + y[1]*100 + y[2]*10 + y[3]
	month, day := mo[0]*10+mo[1], d[0]*10+d[1]
	hour, min, sec := h[0]*10+h[1], mi[0]*10+mi[1], sc[0]*10+sc[1]
	verifAssume(verifAnd(year >= 1, verifAnd(verifAnd(month >= 1, month <= 12), verifAnd(day >= 1, day <= 28))))
	verifAssume(verifAnd(hour <= 23, verifAnd(min <= 59, sec <= 59)))
	nsec := 0
	nf := []int{0, 3, 9}[verifChoice(tag+".fraction", 3)]
	if nf > 0 {
		s = append(s, '.')
		fd := dig("frac", nf)
		// canonical RFC3339Nano text has no trailing zero in the fraction
		verifAssume(fd[nf-1] != 0)
		for i := 0; i < 9; i++ {
			nsec *= 10
			if i < nf {
				nsec += fd[i]
			}
		}
	}
	loc := time.UTC
	if verifChoice(tag+".zone", 2) == 0 {
		s = append(s, 'Z')
	} else {
		neg := verifChoice(tag+".zonesign", 2) == 1
		if neg {
			s = append(s, '-')
		} else {
			s = append(s, '+')
		}
		zh := dig("zh", 2)
		s = append(s, ':')
		zm := dig("zm", 2)
		verifAssume(verifAnd(zh[0]*10+zh[1] <= 23, zm[0]*10+zm[1] <= 59))
		off := (zh[0]*10+zh[1])*60*60 + (zm[0]*10+zm[1])*60
		verifAssume(off != 0) // a zero offset formats as Z
		if neg {
			off = -off
		}
		loc = time.FixedZone("", off)
	}
	*p = time.Date(year, time.Month(month), day, hour, min, sec, nsec, loc)
	verifBindFormat(*p, string(s))
}

// verifTimeText: the RFC3339Nano text of t (bound text under the engine).
func verifTimeText(t time.Time) []byte { return []byte(t.Format(time.RFC3339Nano)) }

// times compare by instant and UTC offset
func verifTimeEq(a, b *time.Time) bool {
	_, ao := a.Zone()
	_, bo := b.Zone()
	return verifAnd(a.Equal(*b), ao == bo)
}
