package null

// C20: the library's own registered types in a position that is allocated (a
// pointer), twice in one record: each value must come back in its own storage -
// a codec whose New hands out too little memory for its type corrupts the
// neighbour allocated next from the same arena.

import (
	"time"
	"unsafe"

	"github.com/philpearl/avro"
	"github.com/unravelin/null/v5"
)

type verifC20Pair struct {
	A *null.Time
	B *null.Time
	C *null.Int
	D *null.Int
	E *null.String
	F *null.String
	Z int64
}

func verifHarness_C20_registered_pointer_pairs() {
	verifAllocMax(4096)
	s, err := avro.SchemaForType(verifC20Pair{})
	verifAssume(err == nil)
	c, err := s.Codec(verifC20Pair{})
	verifAssume(err == nil)
	var in verifC20Pair
	if verifChoice("A.nil", 2) == 0 {
		in.A = &null.Time{}
		in.A.Valid = true
		in.A.Time = time.Date(2001, 2, 3, 4, 5, 6, 0, time.UTC)
		verifBindFormat(in.A.Time, "2001-02-03T04:05:06Z")
	}
	if verifChoice("B.nil", 2) == 0 {
		in.B = &null.Time{}
		in.B.Valid = true
		in.B.Time = time.Date(1999, 12, 31, 23, 59, 58, 500000000, time.UTC)
		verifBindFormat(in.B.Time, "1999-12-31T23:59:58.5Z")
	}
	if verifChoice("C.nil", 2) == 0 {
		in.C = &null.Int{}
		in.C.Valid, in.C.Int64 = true, int64(verifNondetU8("C")&0x3f)
	}
	if verifChoice("D.nil", 2) == 0 {
		in.D = &null.Int{}
		in.D.Valid, in.D.Int64 = true, int64(verifNondetU8("D")&0x3f)
	}
	if verifChoice("E.nil", 2) == 0 {
		in.E = &null.String{}
		in.E.Valid, in.E.String = true, verifString("E", 1)
	}
	if verifChoice("F.nil", 2) == 0 {
		in.F = &null.String{}
		in.F.Valid, in.F.String = true, verifString("F", 2)
	}
	in.Z = int64(verifNondetU8("Z") & 0x3f)
	w := avro.NewWriteBuf(nil)
	c.Write(w, unsafe.Pointer(&in))
	var out verifC20Pair
	r := avro.NewReadBuf(w.Bytes())
	err = c.Read(r, unsafe.Pointer(&out))
	verifAssert(err == nil, "C20:registered-types-behind-pointers-read-ok")
	if err == nil {
		tEq := func(a, b *null.Time) bool {
			if a == nil || b == nil {
				return a == nil && b == nil
			}
			_, ao := a.Time.Zone()
			_, bo := b.Time.Zone()
			return verifAnd(b.Valid, verifAnd(a.Time.Equal(b.Time), ao == bo))
		}
		iEq := func(a, b *null.Int) bool {
			if a == nil || b == nil {
				return a == nil && b == nil
			}
			return verifAnd(b.Valid, a.Int64 == b.Int64)
		}
		sEq := func(a, b *null.String) bool {
			if a == nil || b == nil {
				return a == nil && b == nil
			}
			return verifAnd(b.Valid, verifStrEq(a.String, b.String))
		}
		ok := verifAnd(verifAnd(tEq(in.A, out.A), tEq(in.B, out.B)), verifAnd(iEq(in.C, out.C), iEq(in.D, out.D)))
		ok = verifAnd(ok, verifAnd(sEq(in.E, out.E), sEq(in.F, out.F)))
		verifAssert(verifAnd(ok, in.Z == out.Z), "C20:each-registered-value-round-trips-in-its-own-storage")
	}
	verifKeepAlive(r)
	verifReach("end")
}
