# environment for running the engine and native replays
export GOFLAGS=-mod=mod GOPROXY=off GOTOOLCHAIN=local
export PATH=/root/go/pkg/mod/golang.org/toolchain@v0.0.1-go1.24.0.linux-amd64/bin:$PATH
