package main

// C12 support: ownership / lockset monitor.
//
// While the monitor is on, every object allocated is owned by the operation
// under test.  Objects that existed before (package state, shared codec
// trees, anything passed to verifShare) are shared: a store into a shared
// object is reported unless the object is one of the lock-guarded registries
// and the guarding mutex is write-held; a map lookup in a guarded registry
// requires the mutex read- or write-held.

import (
	"go/types"
	"strings"
)

var guardedGlobals = map[string]string{
	"registry":       "registryMutex",
	"schemaRegistry": "schemaRegistryMutex",
	"tzMap":          "tzLock",
}

func (r *Run) setMonitor(on bool) {
	r.monitor = on
	r.atomicLoaded = nil
}

func (r *Run) markShared(v Value) {
	seen := map[*Object]bool{}
	var walkObj func(o *Object)
	walkObj = func(o *Object) {
		if o == nil || seen[o] {
			return
		}
		seen[o] = true
		if o.Kind != KConst && o.Kind != KRType && !o.Frozen {
			o.Owned = false
		}
		for _, pv := range o.P {
			switch x := pv.(type) {
			case Ptr:
				walkObj(x.Obj)
			case UPtr:
				walkObj(x.P.Obj)
			case *FuncV:
				if x != nil {
					for _, b := range x.Bind {
						r.walkValue(b, walkObj)
					}
				}
			}
		}
		if o.Map != nil {
			for _, e := range o.Map.Entries {
				r.walkValue(e.Key, walkObj)
				walkObj(e.Elem)
			}
		}
	}
	r.walkValue(v, walkObj)
}

func (r *Run) markOwned(v Value) {
	seen := map[*Object]bool{}
	var walkObj func(o *Object)
	walkObj = func(o *Object) {
		if o == nil || seen[o] {
			return
		}
		seen[o] = true
		if o.Kind == KGlobal || o.Kind == KRType {
			return
		}
		o.Owned = true
		for _, pv := range o.P {
			r.walkValue(pv, walkObj)
		}
		if o.Map != nil {
			for _, e := range o.Map.Entries {
				r.walkValue(e.Key, walkObj)
				walkObj(e.Elem)
			}
		}
	}
	r.walkValue(v, walkObj)
}

func (r *Run) walkValue(v Value, f func(o *Object)) {
	switch x := v.(type) {
	case Ptr:
		f(x.Obj)
	case UPtr:
		f(x.P.Obj)
	case Str:
		f(x.P.Obj)
	case SliceV:
		f(x.P.Obj)
	case Iface:
		r.walkValue(x.V, f)
	case *StructV:
		for _, e := range x.F {
			r.walkValue(e, f)
		}
	case *ArrayV:
		for _, e := range x.E {
			r.walkValue(e, f)
		}
	case *FuncV:
		if x != nil {
			for _, b := range x.Bind {
				r.walkValue(b, f)
			}
		}
	}
}

// guardFor returns the mutex guarding object o, if o is (the map header of) a
// guarded registry; found reports whether o is guarded at all.
func (r *Run) guardFor(o *Object) (lockKey, bool) {
	for g, obj := range r.globals {
		mname, ok := guardedGlobals[g.Name()]
		if !ok {
			continue
		}
		match := obj == o
		if !match {
			if pv, ok := obj.P[0]; ok {
				if p, ok := pv.(Ptr); ok && p.Obj != nil {
					if p.Obj == o {
						match = true
					} else if p.Obj.Map != nil {
						// the value cells of a guarded map are guarded with it
						for _, e := range p.Obj.Map.Entries {
							if e.Elem == o {
								match = true
							}
						}
					}
				}
			}
		}
		if !match {
			continue
		}
		// find the mutex global in the same package
		for g2, mo := range r.globals {
			if g2.Pkg == g.Pkg && g2.Name() == mname {
				return lockKey{mo, 0}, true
			}
		}
		if mg, ok := g.Pkg.Members[mname]; ok {
			_ = mg
		}
		return lockKey{}, true
	}
	return lockKey{}, false
}

func (r *Run) guardHeld(o *Object) bool {
	k, guarded := r.guardFor(o)
	if !guarded {
		// sync primitives themselves and pool internals are allowed
		if o.T != nil && strings.HasPrefix(types.TypeString(o.T, nil), "sync.") {
			return true
		}
		return false
	}
	return r.locks[k] == 2
}

// monitorMapRead is called on lookups in shared maps.
func (r *Run) monitorMapRead(o *Object) {
	if !r.monitor || o.Owned || r.inPrefix() {
		return
	}
	k, guarded := r.guardFor(o)
	if !guarded {
		return
	}
	if r.locks[k] == 0 {
		r.flush()
		vec, ok := r.witness("unlocked-read")
		if !ok {
			return
		}
		r.addFinding("unlocked-read", "lookup in a lock-guarded registry without holding its lock", o.Name, vec)
	}
}
