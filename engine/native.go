package main

// Native replay: solver models are pushed through the natively compiled real
// code (go test -overlay) and the event traces are compared with what the
// encoding predicted.

import (
	"bytes"
	"encoding/json"
	"fmt"
	"os"
	"os/exec"
	"path/filepath"
	"sort"
	"strings"
)

type nativeCase struct {
	ID      int      `json:"id"`
	Harness string   `json:"harness"`
	Tags    []string `json:"tags"`
	Vector  []uint64 `json:"vector"`
}

type nativeResult struct {
	ID      int     `json:"id"`
	Harness string  `json:"harness"`
	Outcome string  `json:"outcome"`
	Events  []Event `json:"events"`
}

const replayTestTmpl = `package PKGNAME

import (
	"encoding/json"
	"os"
	"testing"
)

var verifHarnessTable = map[string]func(){
TABLE
}

func TestVerifReplay(t *testing.T) {
	data, err := os.ReadFile(os.Getenv("VERIF_CASES"))
	if err != nil {
		t.Fatal(err)
	}
	var cases []struct {
		ID      int      ` + "`json:\"id\"`" + `
		Harness string   ` + "`json:\"harness\"`" + `
		Tags    []string ` + "`json:\"tags\"`" + `
		Vector  []uint64 ` + "`json:\"vector\"`" + `
	}
	if err := json.Unmarshal(data, &cases); err != nil {
		t.Fatal(err)
	}
	type res struct {
		ID      int          ` + "`json:\"id\"`" + `
		Harness string       ` + "`json:\"harness\"`" + `
		Outcome string       ` + "`json:\"outcome\"`" + `
		Events  []verifEvent ` + "`json:\"events\"`" + `
	}
	var out []res
	for _, c := range cases {
		f := verifHarnessTable[c.Harness]
		if f == nil {
			continue
		}
		verifResetState(c.Tags, c.Vector)
		ev, outcome := verifRunOne(f)
		out = append(out, res{c.ID, c.Harness, outcome, ev})
	}
	b, _ := json.Marshal(out)
	if err := os.WriteFile(os.Getenv("VERIF_OUT")+".PKGNAME", b, 0o644); err != nil {
		t.Fatal(err)
	}
}
`

func nativeValidate(repo, hdir, wd string, eng *Engine, results []*HarnessResult, nValidate int) error {
	// the overlay the engine analysed (not re-read: harness files may have
	// been edited since)
	ov := eng.overlay
	// harness tables per package
	tables := map[string][]string{} // pkg dir ("" / time / null) -> names
	pkgOf := map[string]string{}
	for _, h := range eng.harnesses() {
		path := h.Pkg.Pkg.Path()
		dir := strings.TrimPrefix(strings.TrimPrefix(path, repoModule), "/")
		tables[dir] = append(tables[dir], h.Name())
		pkgOf[h.Name()] = dir
	}
	replace := map[string]string{}
	os.MkdirAll(filepath.Join(wd, "ov"), 0o755)
	k := 0
	for dst, data := range ov {
		k++
		p := filepath.Join(wd, "ov", fmt.Sprintf("%03d_%s", k, filepath.Base(dst)))
		if err := os.WriteFile(p, data, 0o644); err != nil {
			return err
		}
		replace[dst] = p
	}
	var pkgArgs []string
	for dir, names := range tables {
		sort.Strings(names)
		var sb strings.Builder
		for _, n := range names {
			fmt.Fprintf(&sb, "\t%q: %s,\n", n, n)
		}
		pkgName := "avro"
		if dir != "" {
			pkgName = dir
		}
		src := strings.ReplaceAll(replayTestTmpl, "PKGNAME", pkgName)
		src = strings.ReplaceAll(src, "TABLE", sb.String())
		p := filepath.Join(wd, "ov", "replay_"+pkgName+"_test.go")
		if err := os.WriteFile(p, []byte(src), 0o644); err != nil {
			return err
		}
		replace[filepath.Join(repo, dir, "zz_verif_replay_test.go")] = p
	}
	ovJSON, _ := json.Marshal(map[string]interface{}{"Replace": replace})
	ovPath := filepath.Join(wd, "overlay.json")
	os.WriteFile(ovPath, ovJSON, 0o644)

	// cases
	var cases []nativeCase
	type ref struct {
		hr      *HarnessResult
		finding int // index or -1
		vc      *ValidationCase
	}
	var refs []ref
	needPkg := map[string]bool{}
	for _, hr := range results {
		sel := hr.Cases
		if nValidate > 0 && len(sel) > nValidate {
			var s2 []ValidationCase
			for i := 0; i < nValidate; i++ {
				s2 = append(s2, sel[i*len(sel)/nValidate])
			}
			sel = s2
		}
		for i := range sel {
			cases = append(cases, nativeCase{ID: len(cases), Harness: hr.Name, Tags: sel[i].Tags, Vector: sel[i].Vector})
			refs = append(refs, ref{hr: hr, finding: -1, vc: &sel[i]})
			needPkg[pkgOf[hr.Name]] = true
		}
		for i := range hr.Findings {
			f := &hr.Findings[i]
			if f.Vector == nil || f.EngineOnly {
				// no witness vector, or a harness whose native body is a no-op
				// (symbolic type descriptors, self-referential types)
				f.Confirmed = "n/a"
				continue
			}
			cases = append(cases, nativeCase{ID: len(cases), Harness: hr.Name, Tags: f.Tags, Vector: f.Vector})
			refs = append(refs, ref{hr: hr, finding: i})
			needPkg[pkgOf[hr.Name]] = true
		}
	}
	if len(cases) == 0 {
		return nil
	}
	for dir := range needPkg {
		if dir == "" {
			pkgArgs = append(pkgArgs, ".")
		} else {
			pkgArgs = append(pkgArgs, "./"+dir)
		}
	}
	sort.Strings(pkgArgs)
	cj, _ := json.Marshal(cases)
	casesPath := filepath.Join(wd, "cases.json")
	os.WriteFile(casesPath, cj, 0o644)
	outBase := filepath.Join(wd, "native_out")

	args := []string{"test", "-vet=off", "-count=1", "-timeout", "900s", "-run", "^TestVerifReplay$", "-overlay", ovPath}
	if nativeRace {
		args = append(args, "-race")
	}
	args = append(args, pkgArgs...)
	cmd := exec.Command("go", args...)
	cmd.Dir = repo
	cmd.Env = append(os.Environ(), "VERIF_CASES="+casesPath, "VERIF_OUT="+outBase, "GOFLAGS=-mod=mod", "GOPROXY=off")
	var buf bytes.Buffer
	cmd.Stdout = &buf
	cmd.Stderr = &buf
	runErr := cmd.Run()
	os.WriteFile(filepath.Join(wd, "go_test.log"), buf.Bytes(), 0o644)

	raceLog := ""
	if nativeRace && strings.Contains(buf.String(), "DATA RACE") {
		raceLog = buf.String()
	}
	got := map[int]*nativeResult{}
	for dir := range needPkg {
		pkgName := "avro"
		if dir != "" {
			pkgName = dir
		}
		data, err := os.ReadFile(outBase + "." + pkgName)
		if err != nil {
			tail := buf.String()
			if len(tail) > 1500 {
				tail = tail[len(tail)-1500:]
			}
			return fmt.Errorf("native run produced no output for package %s (%v): %s", pkgName, runErr, tail)
		}
		var rs []nativeResult
		if err := json.Unmarshal(data, &rs); err != nil {
			return err
		}
		for i := range rs {
			got[rs[i].ID] = &rs[i]
		}
	}
	for id, rf := range refs {
		nr := got[id]
		if nr == nil {
			rf.hr.Mismatches = append(rf.hr.Mismatches, fmt.Sprintf("case %d: no native result", id))
			continue
		}
		if rf.finding >= 0 {
			f := &rf.hr.Findings[rf.finding]
			if f.Confirmed == "yes" {
				continue
			}
			f.NativeOut = summarizeEvents(nr)
			f.Confirmed = confirmFinding(f, nr)
			if (f.Kind == "shared-write" || f.Kind == "unlocked-read") && raceLog != "" {
				// the race detector saw an unsynchronised pair in this run;
				// accept it as this finding's confirmation if the offending
				// function appears in a report
				fn := f.Site
				if i := strings.LastIndex(fn, "."); i >= 0 {
					fn = fn[i+1:]
				}
				if strings.Contains(raceLog, fn) {
					f.Confirmed = "yes"
					f.NativeOut = "native replay under -race: DATA RACE reported involving " + fn
				}
			}
			if f.Kind == "heap-typing" && dropGCFails(nr) {
				f.Confirmed = "yes"
				f.NativeOut = "native replay: decoded value did not survive forced collections and allocation churn"
			}
			continue
		}
		if hasKind(rf.hr, "heap-typing") {
			// UB-class finding on this harness: a native run in which the
			// value did not survive collections is its confirmation, not a
			// translator mismatch
			if dropGCFails(nr) {
				for i := range rf.hr.Findings {
					if rf.hr.Findings[i].Kind == "heap-typing" {
						rf.hr.Findings[i].Confirmed = "yes"
						rf.hr.Findings[i].NativeOut = "native replay: decoded value did not survive forced collections and allocation churn"
					}
				}
			}
		}
		if msg := compareEvents(rf.vc.Events, nr); msg != "" {
			// An assertion that fails in the real code on a solver-produced
			// input is a violation with its witness in hand, whatever the
			// encoding predicted (an abstraction - an uninterpreted calendar
			// function, a stub - was too coarse on this path).
			if nr.Outcome != "assume-failed" {
				predFail := map[string]bool{}
				for _, e := range rf.vc.Events {
					if e.Kind == "fail" {
						predFail[e.Label] = true
					}
				}
				for _, e := range nr.Events {
					if e.Kind != "fail" || predFail[e.Label] {
						continue
					}
					f := Finding{Harness: rf.hr.Name, Kind: "assert", Label: e.Label, Site: rf.hr.Name, Pos: "native replay",
						Vector: rf.vc.Vector, Tags: rf.vc.Tags, Confirmed: "yes", NativeOut: summarizeEvents(nr),
						Detail: "fails in the real code on a solver-produced input; the encoding did not predict it (abstraction too coarse on this path)"}
					k := findingKey(&f)
					rf.hr.FindingCount[k]++
					if rf.hr.FindingCount[k] == 1 {
						rf.hr.Findings = append(rf.hr.Findings, f)
					}
				}
			}
			if len(rf.hr.Mismatches) < 10 {
				rf.hr.Mismatches = append(rf.hr.Mismatches, fmt.Sprintf("vector %v: %s", rf.vc.Vector, msg))
			}
		} else {
			rf.hr.Validated++
		}
	}
	return nil
}

var nativeRace bool

func hasKind(hr *HarnessResult, kind string) bool {
	for i := range hr.Findings {
		if hr.Findings[i].Kind == kind {
			return true
		}
	}
	return false
}

// dropGCFails removes native-only "did not survive collections" failures and
// reports whether there were any.
func dropGCFails(nr *nativeResult) bool {
	var out []Event
	found := false
	for _, e := range nr.Events {
		if e.Kind == "fail" && (strings.Contains(e.Label, "survives-collections") || strings.Contains(e.Label, "re-encoding-the-decoded-value")) {
			found = true
			continue
		}
		out = append(out, e)
	}
	nr.Events = out
	return found
}

func summarizeEvents(nr *nativeResult) string {
	var sb strings.Builder
	sb.WriteString(nr.Outcome + ":")
	for i, e := range nr.Events {
		if i > 12 {
			sb.WriteString(" …")
			break
		}
		fmt.Fprintf(&sb, " %s(%s)", e.Kind, e.Label)
	}
	return sb.String()
}

func confirmFinding(f *Finding, nr *nativeResult) string {
	if nr.Outcome == "assume-failed" {
		return "no"
	}
	switch f.Kind {
	case "assert":
		for _, e := range nr.Events {
			if e.Kind == "fail" && e.Label == f.Label {
				return "yes"
			}
		}
		return "no"
	case "panic", "nil-deref", "bad-pointer", "bad-interface":
		if nr.Outcome == "panic" {
			return "yes"
		}
		return "no"
	}
	return "n/a"
}

func compareEvents(pred []Event, nr *nativeResult) string {
	if nr.Outcome == "assume-failed" {
		return "native run rejected the model (assume failed)"
	}
	n := len(pred)
	if len(nr.Events) != n {
		var sb strings.Builder
		for _, e := range pred {
			fmt.Fprintf(&sb, " %s(%s)", e.Kind, e.Label)
			if e.Val != "" && len(e.Val) < 400 {
				fmt.Fprintf(&sb, "=%s", e.Val)
			}
		}
		return fmt.Sprintf("event count: predicted %d [%s] native %d (%s)", n, sb.String(), len(nr.Events), summarizeEvents(nr))
	}
	for i := 0; i < n; i++ {
		a, b := pred[i], nr.Events[i]
		if a.Kind != b.Kind || a.Label != b.Label || (a.Kind == "obs" && a.Val != b.Val) {
			return fmt.Sprintf("event %d: predicted %s(%s)=%s native %s(%s)=%s", i, a.Kind, a.Label, a.Val, b.Kind, b.Label, b.Val)
		}
	}
	return ""
}
