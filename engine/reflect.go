package main

// reflect intrinsics backed by go/types, plus foreign-global seeding.

import (
	"go/types"
	"reflect"
	"strings"

	"golang.org/x/tools/go/ssa"
)

func (r *Run) rtypeObj(t types.Type) *Object {
	t = r.eng.canon(t)
	if o, ok := r.rtypes[t]; ok {
		return o
	}
	o := r.newRaw(48, KRType, "rtype:"+types.TypeString(t, nil))
	o.RT = t
	o.Frozen = true
	o.Owned = true
	r.rtypes[t] = o
	return o
}

func (r *Run) reflectTypeIface(t types.Type) Iface {
	rt := r.namedType("reflect", "rtype")
	return Iface{T: r.eng.canon(types.NewPointer(rt)), V: Ptr{Obj: r.rtypeObj(t)}}
}

func (r *Run) isRTypeIface(i Iface) (types.Type, bool) {
	p, ok := i.T.(*types.Pointer)
	if !ok {
		return nil, false
	}
	n, ok := p.Elem().(*types.Named)
	if !ok || n.Obj().Name() != "rtype" || n.Obj().Pkg() == nil || n.Obj().Pkg().Path() != "reflect" {
		return nil, false
	}
	pv := r.asPtr(i.V)
	if pv.Obj == nil || pv.Obj.Kind != KRType {
		r.fail("nil-deref", "reflect.Type with nil descriptor", "")
	}
	return pv.Obj.RT, true
}

func inReflectTypeOf(r *Run, fn *ssa.Function, args []Value) Value {
	i := args[0].(Iface)
	if i.T == nil {
		return Iface{}
	}
	return r.reflectTypeIface(i.T)
}

func reflectKind(t types.Type) uint64 {
	switch u := under(t).(type) {
	case *types.Basic:
		switch u.Kind() {
		case types.Bool:
			return 1
		case types.Int:
			return 2
		case types.Int8:
			return 3
		case types.Int16:
			return 4
		case types.Int32:
			return 5
		case types.Int64:
			return 6
		case types.Uint:
			return 7
		case types.Uint8:
			return 8
		case types.Uint16:
			return 9
		case types.Uint32:
			return 10
		case types.Uint64:
			return 11
		case types.Uintptr:
			return 12
		case types.Float32:
			return 13
		case types.Float64:
			return 14
		case types.Complex64:
			return 15
		case types.Complex128:
			return 16
		case types.String:
			return 24
		case types.UnsafePointer:
			return 26
		}
	case *types.Array:
		return 17
	case *types.Chan:
		return 18
	case *types.Signature:
		return 19
	case *types.Interface:
		return 20
	case *types.Map:
		return 21
	case *types.Pointer:
		return 22
	case *types.Slice:
		return 23
	case *types.Struct:
		return 25
	}
	return 0
}

func (r *Run) invokeIntrinsic(recv Iface, m *types.Func, args []Value) (Value, bool) {
	t, ok := r.isRTypeIface(recv)
	if !ok {
		return nil, false
	}
	if pv := r.asPtr(recv.V); pv.Obj != nil && pv.Obj.Sym != nil {
		return r.symInvoke(pv.Obj.Sym, m.Name(), args), true
	}
	ts := r.ts
	switch m.Name() {
	case "Kind":
		return ts.Const(64, reflectKind(t)), true
	case "Size":
		return ts.Const(64, uint64(r.eng.sizes.Sizeof(t))), true
	case "Align", "FieldAlign":
		return ts.Const(64, uint64(r.eng.sizes.Alignof(t))), true
	case "Elem":
		switch u := under(t).(type) {
		case *types.Pointer:
			return r.reflectTypeIface(u.Elem()), true
		case *types.Slice:
			return r.reflectTypeIface(u.Elem()), true
		case *types.Array:
			return r.reflectTypeIface(u.Elem()), true
		case *types.Map:
			return r.reflectTypeIface(u.Elem()), true
		case *types.Chan:
			return r.reflectTypeIface(u.Elem()), true
		}
		r.fail("panic", "reflect: Elem of invalid type", types.TypeString(t, nil))
	case "Key":
		if u, ok := under(t).(*types.Map); ok {
			return r.reflectTypeIface(u.Key()), true
		}
		r.fail("panic", "reflect: Key of non-map type", types.TypeString(t, nil))
	case "Len":
		if u, ok := under(t).(*types.Array); ok {
			return ts.Const(64, uint64(u.Len())), true
		}
		r.fail("panic", "reflect: Len of non-array type", types.TypeString(t, nil))
	case "NumField":
		if u, ok := under(t).(*types.Struct); ok {
			return ts.Const(64, uint64(u.NumFields())), true
		}
		r.fail("panic", "reflect: NumField of non-struct type", types.TypeString(t, nil))
	case "Field":
		u, ok := under(t).(*types.Struct)
		if !ok {
			r.fail("panic", "reflect: Field of non-struct type", types.TypeString(t, nil))
		}
		i := r.boundedIndex(r.indexTerm(args[0]), int64(u.NumFields()), "reflect Field index")
		return r.structField(u, int(i)), true
	case "Name":
		switch n := types.Unalias(t).(type) {
		case *types.Named:
			return r.strLit(n.Obj().Name()), true
		case *types.Basic:
			return r.strLit(n.Name()), true
		}
		return r.strLit(""), true
	case "PkgPath":
		if n, ok := types.Unalias(t).(*types.Named); ok && n.Obj().Pkg() != nil {
			return r.strLit(n.Obj().Pkg().Path()), true
		}
		return r.strLit(""), true
	case "String":
		return r.strLit(types.TypeString(t, func(p *types.Package) string { return p.Name() })), true
	case "Comparable":
		return ts.BoolConst(types.Comparable(t)), true
	}
	r.engineFail("reflect.Type.%s not modelled", m.Name())
	return nil, false
}

func (r *Run) structField(u *types.Struct, i int) Value {
	sfT := under(r.namedType("reflect", "StructField")).(*types.Struct)
	f := u.Field(i)
	sv := &StructV{F: make([]Value, sfT.NumFields())}
	offs := r.eng.fieldOffsets(u)
	for k := 0; k < sfT.NumFields(); k++ {
		switch sfT.Field(k).Name() {
		case "Name":
			sv.F[k] = r.strLit(f.Name())
		case "PkgPath":
			if f.Exported() {
				sv.F[k] = Str{}
			} else {
				pp := ""
				if f.Pkg() != nil {
					pp = f.Pkg().Path()
				}
				sv.F[k] = r.strLit(pp)
			}
		case "Type":
			sv.F[k] = r.reflectTypeIface(f.Type())
		case "Tag":
			sv.F[k] = r.strLit(u.Tag(i))
		case "Offset":
			sv.F[k] = r.ts.Const(64, uint64(offs[i]))
		case "Index":
			o := r.newArrayObject(types.Typ[types.Int], 1, KHeap, "sf.Index")
			r.storeInt(Ptr{Obj: o}, r.ts.Const(64, uint64(i)))
			sv.F[k] = SliceV{P: Ptr{Obj: o}, Len: 1, Cap: 1}
		case "Anonymous":
			sv.F[k] = r.ts.BoolConst(f.Embedded())
		default:
			sv.F[k] = r.zeroValue(sfT.Field(k).Type())
		}
	}
	return sv
}

func inReflectMakeMap(r *Run, fn *ssa.Function, args []Value) Value {
	t, ok := r.isRTypeIface(args[0].(Iface))
	if !ok {
		r.engineFail("reflect.MakeMap: not a type")
	}
	mt, ok := under(t).(*types.Map)
	if !ok {
		r.fail("panic", "reflect.MakeMap of non-map type", types.TypeString(t, nil))
	}
	vt := under(r.namedType("reflect", "Value")).(*types.Struct)
	sv := &StructV{F: make([]Value, vt.NumFields())}
	for k := 0; k < vt.NumFields(); k++ {
		switch vt.Field(k).Name() {
		case "typ_":
			sv.F[k] = Ptr{Obj: r.rtypeObj(t)}
		case "ptr":
			sv.F[k] = Ptr{Obj: r.newMap(mt)}
		default:
			// flag: kind Map
			sv.F[k] = r.ts.Const(64, 21)
		}
	}
	return sv
}

func inReflectValuePointer(r *Run, fn *ssa.Function, args []Value) Value {
	sv := args[0].(*StructV)
	vt := under(r.namedType("reflect", "Value")).(*types.Struct)
	for k := 0; k < vt.NumFields(); k++ {
		if vt.Field(k).Name() == "ptr" {
			p := r.asPtr(sv.F[k])
			if p.IsNil() {
				return r.ts.Const(64, 0)
			}
			return UPtr{p}
		}
	}
	r.engineFail("reflect.Value has no ptr field")
	return nil
}

func inStructTagGet(r *Run, fn *ssa.Function, args []Value) Value {
	tag := r.mustConcreteString(args[0].(Str), "StructTag.Get tag")
	key := r.mustConcreteString(args[1].(Str), "StructTag.Get key")
	return r.strLit(reflect.StructTag(tag).Get(key))
}

func inStructTagLookup(r *Run, fn *ssa.Function, args []Value) Value {
	tag := r.mustConcreteString(args[0].(Str), "StructTag.Lookup tag")
	key := r.mustConcreteString(args[1].(Str), "StructTag.Lookup key")
	v, ok := reflect.StructTag(tag).Lookup(key)
	return Tuple{r.strLit(v), r.ts.BoolConst(ok)}
}

// ---------- foreign globals ----------

// seedGlobal gives meaning to globals of packages whose init the engine does
// not execute.
func (r *Run) seedGlobal(g *ssa.Global, o *Object) {
	if g.Pkg != nil && r.eng.repoPkgs[g.Pkg] {
		return
	}
	t := g.Type().(*types.Pointer).Elem()
	name := g.RelString(nil)
	// error sentinels
	if types.Identical(t, types.Universe.Lookup("error").Type()) {
		et := r.namedType("errors", "errorString")
		eo := r.newObject(et, KHeap, "sentinel:"+name)
		eo.Owned = true
		r.storeT(Ptr{Obj: eo}, et, &StructV{F: []Value{r.strLit("<" + name + ">")}})
		r.storeT(Ptr{Obj: o}, t, Iface{T: r.eng.canon(types.NewPointer(et)), V: Ptr{Obj: eo}})
		return
	}
	if r.seedJSONGlobal(name, o, t) {
		return
	}
	if name == "io.Discard" {
		dt := r.namedType("io", "discard")
		r.storeT(Ptr{Obj: o}, t, Iface{T: r.eng.canon(dt), V: r.zeroValue(dt)})
		return
	}
	if name == "time.UTC" {
		r.storeT(Ptr{Obj: o}, t, Ptr{Obj: r.utcLoc()})
		return
	}
	if r.eng.sizes.Sizeof(t) == 0 {
		return
	}
	if strings.HasPrefix(name, "sync.") {
		return
	}
	if r.initOK[g.Pkg] {
		return
	}
	o.Unseeded = true
}
