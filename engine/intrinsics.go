package main

// Intrinsics: harness API, runtime linknames, environment stubs.

import (
	"fmt"
	"go/types"
	"strings"

	"golang.org/x/tools/go/ssa"
)

type intrinsicFn func(r *Run, fn *ssa.Function, args []Value) Value

var intrinsicTable map[string]intrinsicFn

func init() {
	intrinsicTable = map[string]intrinsicFn{
		// runtime linknames declared by the repo
		repoModule + ".unsafe_New":      inUnsafeNew,
		repoModule + ".unsafe_NewArray": inUnsafeNewArray,
		repoModule + ".typedslicecopy":  inTypedSliceCopy,
		repoModule + ".mapassign":       inMapAssign,
		repoModule + ".typedmemclr":     inTypedMemClr,
		repoModule + ".mapiterinit":     inMapIterInit,
		repoModule + ".mapiterkey":      inMapIterKey,
		repoModule + ".mapiterelem":     inMapIterElem,
		repoModule + ".mapiternext":     inMapIterNext,
		repoModule + ".maplen":          inMapLen,

		"fmt.Errorf":  inErrorf,
		"fmt.Sprintf": inSprintf,
		"fmt.Sprint":  inSprintf,
		"errors.Is":   inErrorsIs,
		"errors.As":   inErrorsAs,

		"(*sync.Mutex).Lock":      inLock,
		"(*sync.Mutex).Unlock":    inUnlock,
		"(*sync.RWMutex).Lock":    inLock,
		"(*sync.RWMutex).Unlock":  inUnlock,
		"(*sync.RWMutex).RLock":   inRLock,
		"(*sync.RWMutex).RUnlock": inRUnlock,
		"(*sync.Pool).Get":        inPoolGet,
		"(*sync.Pool).Put":        inPoolPut,

		"crypto/rand.Read": inRandRead,

		"strings.NewReplacer":         inNewReplacer,
		"(*strings.Replacer).Replace": inReplacerReplace,
		"strings.Cut":                 inStringsCut,
		"strings.Index":               inStringsIndex,

		"reflect.TypeOf":             inReflectTypeOf,
		"reflect.MakeMap":            inReflectMakeMap,
		"(reflect.Value).Pointer":    inReflectValuePointer,
		"(reflect.StructTag).Get":    inStructTagGet,
		"(reflect.StructTag).Lookup": inStructTagLookup,
	}
	registerTimeIntrinsics()
	registerAtomicIntrinsics()
}

func (r *Run) intrinsic(fn *ssa.Function, args []Value) (Value, bool) {
	name := fn.String()
	if fn.Pkg != nil && r.eng.repoPkgs[fn.Pkg] && strings.HasPrefix(fn.Name(), "verif") && fn.Signature.Recv() == nil {
		if res, ok := r.verifAPI(fn, args); ok {
			return res, true
		}
	}
	if f, ok := intrinsicTable[name]; ok {
		return f(r, fn, args), true
	}
	if o := fn.Origin(); o != nil && o != fn {
		if f, ok := intrinsicTable[o.String()]; ok {
			return f(r, fn, args), true
		}
	}
	if stub := r.eng.stubFor(fn); stub != nil {
		if strings.HasPrefix(stub.Name(), "verifStub_sync_") {
			// models of concurrency-safe containers: their internal state is not
			// subject to the ownership monitor
			mon := r.monitor
			r.monitor = false
			res := r.callFn(stub, args, nil, fn.Pos())
			r.monitor = mon
			return res, true
		}
		return r.callFn(stub, args, nil, fn.Pos()), true
	}
	return nil, false
}

// stubFor finds an overlay function verifStub_<pkg>_<name> replacing fn.
func (e *Engine) stubFor(fn *ssa.Function) *ssa.Function {
	if fn.Pkg == nil || e.repoPkgs[fn.Pkg] {
		return nil
	}
	if v, ok := e.stubCache.Load(fn); ok {
		s, _ := v.(*ssa.Function)
		return s
	}
	path := fn.Pkg.Pkg.Path()
	last := path[strings.LastIndex(path, "/")+1:]
	name := "verifStub_" + last + "_"
	if recv := fn.Signature.Recv(); recv != nil {
		t := recv.Type()
		if p, ok := t.(*types.Pointer); ok {
			t = p.Elem()
		}
		if n, ok := t.(*types.Named); ok {
			name += n.Obj().Name() + "_"
		}
	}
	name += fn.Name()
	var found *ssa.Function
	for p := range e.repoPkgs {
		if m, ok := p.Members[name].(*ssa.Function); ok {
			found = m
			break
		}
	}
	e.stubCache.Store(fn, found)
	return found
}

func (r *Run) strArg(v Value) string {
	return r.mustConcreteString(v.(Str), "harness API string argument")
}

func (r *Run) verifAPI(fn *ssa.Function, args []Value) (Value, bool) {
	ts := r.ts
	name := fn.Name()
	if strings.HasPrefix(name, "verifJSON") {
		return r.jsonAPI(name, args)
	}
	switch name {
	case "verifNondetBool":
		v := r.newInput(r.strArg(args[0]), 8)
		r.assume(ts.ULE(v, ts.Const(8, 1)))
		return ts.Eq(v, ts.Const(8, 1)), true
	case "verifNondetU8":
		return r.newInput(r.strArg(args[0]), 8), true
	case "verifNondetI16", "verifNondetU16":
		return r.newInput(r.strArg(args[0]), 16), true
	case "verifNondetI32", "verifNondetU32", "verifNondetF32":
		return r.newInput(r.strArg(args[0]), 32), true
	case "verifNondetI64", "verifNondetU64", "verifNondetF64", "verifNondetInt":
		return r.newInput(r.strArg(args[0]), 64), true
	case "verifBytes":
		tag := r.strArg(args[0])
		n := r.concretizeSigned(args[1].(*Term), "verifBytes length")
		if n < 0 {
			r.engineFail("verifBytes: negative length")
		}
		o := r.newArrayObject(types.Typ[types.Uint8], n, KHeap, "verifBytes:"+tag)
		o.Tag = tag
		for i := int64(0); i < n; i++ {
			o.B[i] = r.newInput(tag, 8)
		}
		return SliceV{P: Ptr{Obj: o}, Len: n, Cap: n}, true
	case "verifString":
		tag := r.strArg(args[0])
		n := r.concretizeSigned(args[1].(*Term), "verifString length")
		if n == 0 {
			return Str{}, true
		}
		o := r.newRaw(n, KHeap, "verifString:"+tag)
		o.Tag = tag
		for i := int64(0); i < n; i++ {
			o.B[i] = r.newInput(tag, 8)
		}
		o.Frozen = true
		return Str{P: Ptr{Obj: o}, Len: n}, true
	case "verifChoice":
		tag := r.strArg(args[0])
		n := r.concretizeSigned(args[1].(*Term), "verifChoice n")
		if n <= 0 {
			r.engineFail("verifChoice: n=%d", n)
		}
		v := r.newInput(tag, 64)
		r.assume(ts.ULT(v, ts.Const(64, uint64(n))))
		k := r.decide(int(n), nil)
		r.assume(ts.Eq(v, ts.Const(64, uint64(k))))
		return ts.Const(64, uint64(k)), true
	case "verifAssume":
		c := args[0].(*Term)
		if c.IsConst() {
			if c.Val == 0 {
				panic(pathEnd{"assume false"})
			}
			return Tuple{}, true
		}
		if !r.inPrefix() && r.feasible(c) == Unsat {
			panic(pathEnd{"assume infeasible"})
		}
		r.assume(c)
		return Tuple{}, true
	case "verifAssert":
		c := args[0].(*Term)
		label := r.strArg(args[1])
		r.assertLabel(c, label)
		return Tuple{}, true
	case "verifReach":
		label := r.strArg(args[0])
		r.reached[label] = true
		r.events = append(r.events, Event{Kind: "reach", Label: label})
		return Tuple{}, true
	case "verifObserveI64", "verifObserveU64", "verifObserveInt":
		r.events = append(r.events, Event{Kind: "obs", Label: r.strArg(args[0]), term: r.ts.zext64(args[1].(*Term))})
		return Tuple{}, true
	case "verifObserveBool":
		r.events = append(r.events, Event{Kind: "obs", Label: r.strArg(args[0]), term: ts.BoolToBV(args[1].(*Term), 64)})
		return Tuple{}, true
	case "verifObserveBytes":
		s := args[1].(SliceV)
		ev := Event{Kind: "obs", Label: r.strArg(args[0])}
		ev.terms = append([]*Term{}, r.regionBytes(s.P, s.Len)...)
		r.events = append(r.events, ev)
		return Tuple{}, true
	case "verifConcurrently":
		fv := args[0].(*FuncV)
		r.setMonitor(true)
		r.callValue(fv, nil, 0)
		r.setMonitor(false)
		return Tuple{}, true
	case "verifBindFormat":
		tv := args[0]
		if iv, ok := tv.(Iface); ok {
			tv = iv.V
		}
		w, e, _ := r.timeParts(tv)
		r.formats[[2]int{w.ID, e.ID}] = args[1].(Str)
		return Tuple{}, true
	case "verifGCChurn", "verifKeepAlive":
		return Tuple{}, true
	case "verifNoValidate":
		r.noValidate = true
		return Tuple{}, true
	case "verifUnwind":
		r.unwind = int(r.concretizeSigned(args[0].(*Term), "verifUnwind"))
		return Tuple{}, true
	case "verifMaxDepth":
		r.maxDepth = int(r.concretizeSigned(args[0].(*Term), "verifMaxDepth"))
		return Tuple{}, true
	case "verifAllocMax":
		r.allocMax = r.concretizeSigned(args[0].(*Term), "verifAllocMax")
		return Tuple{}, true
	case "verifStrictHeap":
		r.strict = args[0].(*Term).Val != 0
		return Tuple{}, true
	case "verifMonitor":
		r.setMonitor(args[0].(*Term).Val != 0)
		return Tuple{}, true
	case "verifUF32":
		name := r.strArg(args[0])
		sl := args[1].(SliceV)
		var sb strings.Builder
		sb.WriteString(name)
		for _, b := range r.regionBytes(sl.P, sl.Len) {
			fmt.Fprintf(&sb, "|%d", b.ID)
		}
		if v, ok := r.ufMemo[sb.String()]; ok {
			return v, true
		}
		v := r.freshVar("uf_"+name, 32)
		r.ufMemo[sb.String()] = v
		return v, true
	case "verifAnd":
		return ts.And(args[0].(*Term), args[1].(*Term)), true
	case "verifOr":
		return ts.Or(args[0].(*Term), args[1].(*Term)), true
	case "verifIteI64":
		return ts.Ite(args[0].(*Term), args[1].(*Term), args[2].(*Term)), true
	case "verifThorough":
		return ts.BoolConst(thoroughTier), true
	case "verifSymbolic":
		// true under the engine, false natively
		return ts.True, true
	case "verifFlag":
		k := r.strArg(args[0])
		r.flags[k] = r.concretizeSigned(args[1].(*Term), "verifFlag")
		return Tuple{}, true
	case "verifTagOf":
		// provenance tag of the object a pointer points into ("" if none)
		p := r.asPtr(r.firstWordOfAny(args[0]))
		if p.Obj == nil {
			return r.strLit(""), true
		}
		return r.strLit(p.Obj.Tag), true
	case "verifSetTag":
		p := r.asPtr(r.firstWordOfAny(args[0]))
		if p.Obj != nil {
			p.Obj.Tag = r.strArg(args[1])
		}
		return Tuple{}, true
	case "verifSameObject":
		a := r.asPtr(r.firstWordOfAny(args[0]))
		b := r.asPtr(r.firstWordOfAny(args[1]))
		return ts.BoolConst(a.Obj != nil && a.Obj == b.Obj), true
	case "verifTypeNodes":
		tag := r.strArg(args[0])
		n := int(r.concretizeSigned(args[1].(*Term), "verifTypeNodes n"))
		vals := r.newSymNodes(tag, n)
		it := r.namedType("reflect", "Type")
		o := r.newArrayObject(it, int64(n), KHeap, "typenodes")
		for i, v := range vals {
			r.storeT(Ptr{Obj: o, Off: int64(16 * i)}, it, v)
		}
		return SliceV{P: Ptr{Obj: o}, Len: int64(n), Cap: int64(n)}, true
	case "verifOwn":
		// hand the objects reachable from the argument to the operation under test
		r.markOwned(args[0])
		return Tuple{}, true
	case "verifShare":
		// mark everything reachable from the argument as shared (C12)
		r.markShared(args[0])
		return Tuple{}, true
	}
	return nil, false
}

func (ts *TermStore) zext64(t *Term) *Term {
	if t.W == 0 {
		return ts.BoolToBV(t, 64)
	}
	if t.W < 64 {
		return ts.ZExt(t, 64)
	}
	return t
}

func (r *Run) firstWordOfAny(v Value) Value {
	switch x := v.(type) {
	case Iface:
		return r.firstWordOfAny(x.V)
	case SliceV:
		return x.P
	case Str:
		return x.P
	}
	return r.firstWord(v)
}

func (r *Run) assertLabel(c *Term, label string) {
	if c.IsConst() && c.Val != 0 {
		return
	}
	if r.inPrefix() {
		if c.IsConst() {
			// unconditional failure: the finding was reported by the parent
			// path, the event still belongs to this path's trace
			r.events = append(r.events, Event{Kind: "fail", Label: label})
			return
		}
		r.assume(c)
		return
	}
	if c.IsConst() {
		// the assertion is false outright: it is a violation iff the path is
		// feasible. (A path can get here although it is infeasible when an
		// earlier feasibility query timed out and the branch was kept.)
		r.flush()
		var vec []uint64
		res := r.sol.CheckSat()
		if res == Sat {
			vec, _ = r.model()
		} else if res == Unknown {
			res, vec = r.secondOpinion(nil)
		}
		switch res {
		case Unsat:
			panic(pathEnd{"infeasible"})
		case Sat:
			r.addFinding("assert", label, "assertion is false on this path", vec)
			r.events = append(r.events, Event{Kind: "fail", Label: label})
		default:
			r.unknowns++
			r.addFinding("unknown", label, "assertion is false on a path whose feasibility neither solver decides", nil)
		}
		return
	}
	r.flush()
	r.sol.Push()
	r.sol.Assert(r.ts.Not(c))
	res := r.sol.CheckSat()
	if res == Sat {
		vec, _ := r.model()
		r.sol.Pop()
		r.addFinding("assert", label, "assertion can fail", vec)
	} else {
		r.sol.Pop()
		if res == Unknown {
			switch res2, vec := r.secondOpinion(r.ts.Not(c)); res2 {
			case Unsat:
			case Sat:
				r.addFinding("assert", label, "assertion can fail", vec)
			default:
				r.unknowns++
				r.addFinding("unknown", label, "both solvers returned unknown for assertion", nil)
			}
		}
	}
	if r.feasible(c) == Unsat {
		r.events = append(r.events, Event{Kind: "fail", Label: label})
		return
	}
	r.assume(c)
}

// ---------- runtime linknames ----------

func (r *Run) rtypeArg(v Value, what string) types.Type {
	p := r.asPtr(v)
	if p.Obj == nil || p.Obj.Kind != KRType || p.Off != 0 {
		r.fail("bad-pointer", what+": argument is not a runtime type descriptor", p.String())
	}
	if p.Obj.RT == nil {
		r.engineFail("%s on a symbolic type descriptor", what)
	}
	return p.Obj.RT
}

func inUnsafeNew(r *Run, fn *ssa.Function, args []Value) Value {
	t := r.rtypeArg(args[0], "unsafe_New")
	return Ptr{Obj: r.newObject(t, KHeap, "unsafe_New")}
}

func inUnsafeNewArray(r *Run, fn *ssa.Function, args []Value) Value {
	t := r.rtypeArg(args[0], "unsafe_NewArray")
	n := r.allocLen(args[1].(*Term), "unsafe_NewArray length")
	return Ptr{Obj: r.newArrayObject(t, n, KHeap, "unsafe_NewArray")}
}

func inTypedSliceCopy(r *Run, fn *ssa.Function, args []Value) Value {
	t := r.rtypeArg(args[0], "typedslicecopy")
	dst := args[1].(*StructV)
	src := args[2].(*StructV)
	dl := r.concretizeSigned(dst.F[1].(*Term), "typedslicecopy dst len")
	sl := r.concretizeSigned(src.F[1].(*Term), "typedslicecopy src len")
	n := dl
	if sl < n {
		n = sl
	}
	sz := r.eng.sizes.Sizeof(t)
	if n > 0 && sz > 0 {
		r.copyMem(r.asPtr(dst.F[0]), r.asPtr(src.F[0]), n*sz)
	}
	return r.ts.Const(64, uint64(n))
}

func inMapAssign(r *Run, fn *ssa.Function, args []Value) Value {
	mt, ok := under(r.rtypeArg(args[0], "mapassign")).(*types.Map)
	if !ok {
		r.fail("bad-pointer", "mapassign: type is not a map type", "")
	}
	m := r.asPtr(args[1])
	if !m.IsNil() {
		md := r.mapData(m)
		if !types.Identical(md.T, mt) {
			r.fail("bad-pointer", "mapassign: map header has a different type", fmt.Sprintf("%v vs %v", md.T, mt))
		}
	}
	r.mapAssignFromMem(m, r.asPtr(args[2]), r.asPtr(args[3]))
	return Tuple{}
}

func inTypedMemClr(r *Run, fn *ssa.Function, args []Value) Value {
	t := r.rtypeArg(args[0], "typedmemclr")
	r.zeroMem(r.asPtr(args[1]), r.eng.sizes.Sizeof(t))
	return Tuple{}
}

// The runtime side of the map iterator (go1.24, runtime.linknameIter): four
// pointer words - key, elem, map type, *maps.Iter. mapiterinit stores the type
// descriptor and a pointer to its heap-allocated iterator into words 2 and 3,
// key and elem pointers into words 0 and 1; all four are pointers the
// collector must see, so under strict heap typing the memory the caller hands
// in must declare them as pointer words.
type mapIterNative struct {
	order []*MapEntry
	k     int
}

const mapIterSize = 32

func inMapIterInit(r *Run, fn *ssa.Function, args []Value) Value {
	r.rtypeArg(args[0], "mapiterinit")
	m := r.asPtr(args[1])
	it := r.asPtr(args[2])
	if it.Obj == nil {
		r.fail("nil-deref", "mapiterinit: nil iterator", "")
	}
	if it.Obj.Size-it.Off < mapIterSize {
		r.fail("oob", "mapiterinit: iterator memory smaller than the runtime iterator", fmt.Sprintf("have %d bytes, the runtime writes %d", it.Obj.Size-it.Off, mapIterSize))
	}
	st := &mapIterNative{}
	if !m.IsNil() {
		r.mapData(m)
		st.order = r.mapOrder(m.Obj)
	}
	so := r.newRaw(64, KNative, "maps.Iter")
	so.Native = st
	r.storeWord(Ptr{Obj: it.Obj, Off: it.Off + 16}, r.asPtr(args[0]))
	r.storeWord(Ptr{Obj: it.Obj, Off: it.Off + 24}, Ptr{Obj: so})
	r.iterPublish(it, st)
	return Tuple{}
}

// iterPublish writes the current key / elem pointers into words 0 and 1.
func (r *Run) iterPublish(it Ptr, st *mapIterNative) {
	if st.k >= len(st.order) {
		r.storeWord(Ptr{Obj: it.Obj, Off: it.Off}, Ptr{})
		r.storeWord(Ptr{Obj: it.Obj, Off: it.Off + 8}, Ptr{})
		return
	}
	e := st.order[st.k]
	r.storeWord(Ptr{Obj: it.Obj, Off: it.Off}, Ptr{Obj: r.keyCell(e)})
	r.storeWord(Ptr{Obj: it.Obj, Off: it.Off + 8}, Ptr{Obj: e.Elem})
}

func iterState2(r *Run, v Value) (Ptr, *mapIterNative) {
	it := r.asPtr(v)
	if it.Obj == nil {
		r.fail("nil-deref", "map iterator is nil", "")
	}
	sp := r.asPtr(r.loadWord(Ptr{Obj: it.Obj, Off: it.Off + 24}))
	if sp.Obj == nil {
		r.fail("bad-pointer", "map iterator was not initialised", "")
	}
	st, ok := sp.Obj.Native.(*mapIterNative)
	if !ok {
		r.fail("bad-pointer", "map iterator state is not a runtime iterator", "")
	}
	return it, st
}

func inMapIterKey(r *Run, fn *ssa.Function, args []Value) Value {
	it, _ := iterState2(r, args[0])
	return r.asPtr(r.loadWord(Ptr{Obj: it.Obj, Off: it.Off}))
}

func (r *Run) keyCell(e *MapEntry) *Object {
	// string keys only (repo maps are string-keyed); other key kinds use a
	// generic cell typed by the stored value
	switch k := e.Key.(type) {
	case Str:
		o := r.newObject(types.Typ[types.String], KHeap, "mapkey")
		r.storeT(Ptr{Obj: o}, types.Typ[types.String], k)
		return o
	case *Term:
		o := r.newRaw(int64(k.W/8), KHeap, "mapkey")
		r.storeInt(Ptr{Obj: o}, k)
		return o
	}
	r.engineFail("keyCell: unsupported key %T", e.Key)
	return nil
}

func inMapIterElem(r *Run, fn *ssa.Function, args []Value) Value {
	it, _ := iterState2(r, args[0])
	return r.asPtr(r.loadWord(Ptr{Obj: it.Obj, Off: it.Off + 8}))
}

func inMapIterNext(r *Run, fn *ssa.Function, args []Value) Value {
	it, st := iterState2(r, args[0])
	st.k++
	r.iterPublish(it, st)
	return Tuple{}
}

func inMapLen(r *Run, fn *ssa.Function, args []Value) Value {
	m := r.asPtr(args[0])
	if m.IsNil() {
		return r.ts.Const(64, 0)
	}
	if m.Bad != nil {
		r.fail("bad-pointer", "maplen of invalid pointer", "")
	}
	if m.Obj.Kind == KHMap && m.Off == 0 {
		return r.ts.Const(64, uint64(len(m.Obj.Map.Entries)))
	}
	// not a map header: the runtime reads the first word as the count
	r.memEvent("maplen-of-non-map", m.String())
	r.checkAccess(m, 8, false)
	if pv, ok := m.Obj.P[m.Off]; ok {
		_ = pv
		v := r.freshVar("addr_as_count", 64)
		r.assume(r.ts.Ne(v, r.ts.Const(64, 0)))
		return v
	}
	return r.loadInt(m, 8)
}

// ---------- fmt / errors ----------

func (r *Run) namedType(pkg, name string) types.Type {
	p := r.eng.spkgs[pkg]
	if p == nil {
		r.engineFail("package %s not loaded", pkg)
	}
	tn := p.Pkg.Scope().Lookup(name)
	if tn == nil {
		r.engineFail("type %s.%s not found", pkg, name)
	}
	return tn.Type()
}

func (r *Run) sliceElems(v Value, et types.Type) []Value {
	s := v.(SliceV)
	sz := r.eng.sizes.Sizeof(et)
	out := make([]Value, s.Len)
	for i := int64(0); i < s.Len; i++ {
		out[i] = r.loadT(Ptr{Obj: s.P.Obj, Off: s.P.Off + i*sz}, et)
	}
	return out
}

var anyType = types.NewInterfaceType(nil, nil).Complete()

func inErrorf(r *Run, fn *ssa.Function, args []Value) Value {
	format, ok := r.concreteString(args[0].(Str))
	if !ok {
		format = ""
	}
	ops := r.sliceElems(args[1], anyType)
	// map verbs to operands
	var wrapped []Value
	argi := 0
	for i := 0; i < len(format); i++ {
		if format[i] != '%' {
			continue
		}
		i++
		for i < len(format) && strings.IndexByte("+-# 0123456789.*[]", format[i]) >= 0 {
			i++
		}
		if i >= len(format) {
			break
		}
		if format[i] == '%' {
			continue
		}
		if format[i] == 'w' && argi < len(ops) {
			if iv, ok := ops[argi].(Iface); ok && iv.T != nil {
				wrapped = append(wrapped, iv)
			}
		}
		argi++
	}
	msg := r.strLit("<fmt.Errorf>")
	switch len(wrapped) {
	case 0:
		t := r.namedType("errors", "errorString")
		o := r.newObject(t, KHeap, "error")
		r.storeT(Ptr{Obj: o}, t, &StructV{F: []Value{msg}})
		return Iface{T: r.eng.canon(types.NewPointer(t)), V: Ptr{Obj: o}}
	case 1:
		t := r.namedType("fmt", "wrapError")
		o := r.newObject(t, KHeap, "wrapError")
		r.storeT(Ptr{Obj: o}, t, &StructV{F: []Value{msg, wrapped[0]}})
		return Iface{T: r.eng.canon(types.NewPointer(t)), V: Ptr{Obj: o}}
	}
	r.engineFail("fmt.Errorf with %d %%w operands", len(wrapped))
	return nil
}

func inSprintf(r *Run, fn *ssa.Function, args []Value) Value {
	return r.strLit("<fmt.Sprintf>")
}

func (r *Run) hasMethod(t types.Type, name string) *types.Selection {
	ms := r.eng.prog.MethodSets.MethodSet(t)
	return ms.Lookup(nil, name)
}

func (r *Run) errIs(err, target Iface, depth int) bool {
	if err.T == nil {
		return target.T == nil
	}
	if depth > 16 {
		r.engineFail("errors.Is: chain too deep")
	}
	eq := r.valueEqIface(err, target)
	if eq {
		return true
	}
	if sel := r.hasMethod(err.T, "Is"); sel != nil {
		m := r.eng.prog.MethodValue(sel)
		res := r.callFn(m, []Value{err.V, target}, nil, 0)
		if r.branch(res.(*Term)) {
			return true
		}
	}
	if sel := r.hasMethod(err.T, "Unwrap"); sel != nil {
		m := r.eng.prog.MethodValue(sel)
		res := r.callFn(m, []Value{err.V}, nil, 0)
		switch x := res.(type) {
		case Iface:
			return r.errIs(x, target, depth+1)
		case SliceV:
			for _, e := range r.sliceElems(x, types.Universe.Lookup("error").Type()) {
				if r.errIs(e.(Iface), target, depth+1) {
					return true
				}
			}
		}
	}
	return false
}

func (r *Run) valueEqIface(a, b Iface) bool {
	if a.T == nil || b.T == nil {
		return a.T == nil && b.T == nil
	}
	if !types.Identical(a.T, b.T) {
		return false
	}
	if !types.Comparable(a.T) {
		return false
	}
	return r.branch(r.valueEq(a.V, b.V, a.T))
}

func (r *Run) errAs(err Iface, tp Ptr, elem types.Type, depth int) bool {
	if err.T == nil {
		return false
	}
	if depth > 16 {
		r.engineFail("errors.As: chain too deep")
	}
	if it, ok := under(elem).(*types.Interface); ok {
		if r.implements(err.T, it) {
			r.storeT(tp, elem, err)
			return true
		}
	} else if types.Identical(err.T, elem) {
		r.storeT(tp, elem, err.V)
		return true
	}
	if sel := r.hasMethod(err.T, "As"); sel != nil {
		m := r.eng.prog.MethodValue(sel)
		res := r.callFn(m, []Value{err.V, Iface{T: types.NewPointer(elem), V: tp}}, nil, 0)
		if r.branch(res.(*Term)) {
			return true
		}
	}
	if sel := r.hasMethod(err.T, "Unwrap"); sel != nil {
		m := r.eng.prog.MethodValue(sel)
		res := r.callFn(m, []Value{err.V}, nil, 0)
		switch x := res.(type) {
		case Iface:
			return r.errAs(x, tp, elem, depth+1)
		case SliceV:
			for _, e := range r.sliceElems(x, types.Universe.Lookup("error").Type()) {
				if r.errAs(e.(Iface), tp, elem, depth+1) {
					return true
				}
			}
		}
	}
	return false
}

func inErrorsAs(r *Run, fn *ssa.Function, args []Value) Value {
	err, target := args[0].(Iface), args[1].(Iface)
	if target.T == nil {
		r.fail("panic", "errors: target cannot be nil", "")
	}
	pt, ok := under(target.T).(*types.Pointer)
	if !ok || r.asPtr(target.V).IsNil() {
		r.fail("panic", "errors: target must be a non-nil pointer", "")
	}
	elem := pt.Elem()
	if _, isIface := under(elem).(*types.Interface); !isIface {
		errT := types.Universe.Lookup("error").Type().Underlying().(*types.Interface)
		if !r.implements(elem, errT) {
			r.fail("panic", "errors: *target must be interface or implement error", "")
		}
	}
	return r.ts.BoolConst(r.errAs(err, r.asPtr(target.V), elem, 0))
}

func inErrorsIs(r *Run, fn *ssa.Function, args []Value) Value {
	return r.ts.BoolConst(r.errIs(args[0].(Iface), args[1].(Iface), 0))
}

// ---------- sync ----------

func inLock(r *Run, fn *ssa.Function, args []Value) Value {
	p := r.asPtr(args[0])
	r.lockOp(p, 2)
	return Tuple{}
}
func inUnlock(r *Run, fn *ssa.Function, args []Value) Value {
	p := r.asPtr(args[0])
	r.lockOp(p, -2)
	return Tuple{}
}
func inRLock(r *Run, fn *ssa.Function, args []Value) Value {
	p := r.asPtr(args[0])
	r.lockOp(p, 1)
	return Tuple{}
}
func inRUnlock(r *Run, fn *ssa.Function, args []Value) Value {
	p := r.asPtr(args[0])
	r.lockOp(p, -1)
	return Tuple{}
}

type lockKey struct {
	o   *Object
	off int64
}

func (r *Run) lockOp(p Ptr, delta int) {
	if p.Obj == nil {
		r.fail("nil-deref", "lock operation on nil mutex", "")
	}
	k := lockKey{p.Obj, p.Off}
	cur := r.locks[k]
	switch delta {
	case 2:
		if cur != 0 {
			r.fail("deadlock", "Lock of a mutex already held by this operation", p.String())
		}
		r.locks[k] = 2
	case 1:
		if cur == 2 {
			r.fail("deadlock", "RLock of a mutex write-held by this operation", p.String())
		}
		r.locks[k] = 1
	case -2:
		if cur != 2 {
			r.fail("panic", "sync: unlock of unlocked mutex", p.String())
		}
		delete(r.locks, k)
	case -1:
		if cur != 1 {
			r.fail("panic", "sync: RUnlock of unlocked RWMutex", p.String())
		}
		delete(r.locks, k)
	}
}

func (r *Run) poolKey(p Ptr) lockKey { return lockKey{p.Obj, p.Off} }

func inPoolGet(r *Run, fn *ssa.Function, args []Value) Value {
	p := r.asPtr(args[0])
	k := r.poolKey(p)
	list := r.poolItems[k]
	c := 0
	if len(list) > 0 {
		c = r.decide(len(list)+1, nil)
	}
	if c > 0 {
		v := list[c-1]
		nl := append([]Value{}, list[:c-1]...)
		nl = append(nl, list[c:]...)
		r.poolItems[k] = nl
		if r.monitor {
			// the pool hands an object to exactly one goroutine
			r.markOwned(v)
		}
		return v
	}
	// call New
	pt := under(fn.Signature.Recv().Type().(*types.Pointer).Elem()).(*types.Struct)
	offs := r.eng.fieldOffsets(pt)
	for i := 0; i < pt.NumFields(); i++ {
		if pt.Field(i).Name() == "New" {
			fv := r.loadT(Ptr{Obj: p.Obj, Off: p.Off + offs[i]}, pt.Field(i).Type()).(*FuncV)
			if fv == nil {
				return Iface{}
			}
			return r.callValue(fv, nil, 0)
		}
	}
	r.engineFail("sync.Pool has no New field")
	return nil
}

func inPoolPut(r *Run, fn *ssa.Function, args []Value) Value {
	p := r.asPtr(args[0])
	k := r.poolKey(p)
	r.poolItems[k] = append(r.poolItems[k], args[1])
	return Tuple{}
}

func inRandRead(r *Run, fn *ssa.Function, args []Value) Value {
	s := args[0].(SliceV)
	if s.Len > 0 {
		r.checkAccess(s.P, s.Len, true)
		for i := int64(0); i < s.Len; i++ {
			s.P.Obj.B[s.P.Off+i] = r.freshVar("rand", 8)
		}
	}
	return Tuple{r.ts.Const(64, uint64(s.Len)), Iface{}}
}

// ---------- strings ----------

func inNewReplacer(r *Run, fn *ssa.Function, args []Value) Value {
	elems := r.sliceElems(args[0], types.Typ[types.String])
	var strs []string
	for _, e := range elems {
		strs = append(strs, r.mustConcreteString(e.(Str), "strings.NewReplacer"))
	}
	t := r.namedType("strings", "Replacer")
	o := r.newObject(t, KNative, "replacer")
	o.Native = strings.NewReplacer(strs...)
	o.Owned = true
	return Ptr{Obj: o}
}

func inReplacerReplace(r *Run, fn *ssa.Function, args []Value) Value {
	p := r.asPtr(args[0])
	rep, ok := p.Obj.Native.(*strings.Replacer)
	if !ok {
		r.engineFail("Replacer.Replace on unknown replacer")
	}
	s := r.mustConcreteString(args[1].(Str), "Replacer.Replace")
	return r.strLit(rep.Replace(s))
}

func inStringsCut(r *Run, fn *ssa.Function, args []Value) Value {
	s := args[0].(Str)
	sepS := args[1].(Str)
	cs, ok1 := r.concreteString(s)
	sep, ok2 := r.concreteString(sepS)
	if ok1 && ok2 {
		i := strings.Index(cs, sep)
		if i < 0 {
			return Tuple{s, Str{}, r.ts.False}
		}
		before := Str{P: s.P, Len: int64(i)}
		if i == 0 {
			before = Str{}
		}
		al := s.Len - int64(i+len(sep))
		after := Str{}
		if al > 0 {
			after = Str{P: Ptr{Obj: s.P.Obj, Off: s.P.Off + int64(i+len(sep))}, Len: al}
		}
		return Tuple{before, after, r.ts.True}
	}
	if !ok2 || len(sep) != 1 {
		r.engineFail("strings.Cut with symbolic separator")
	}
	// symbolic subject, one-byte separator: first index contract, forked
	bs := r.regionBytes(s.P, s.Len)
	sb := r.ts.Const(8, uint64(sep[0]))
	for i := int64(0); i < s.Len; i++ {
		if r.branch(r.ts.Eq(bs[i], sb)) {
			before := Str{P: s.P, Len: i}
			if i == 0 {
				before = Str{}
			}
			after := Str{}
			if s.Len-i-1 > 0 {
				after = Str{P: Ptr{Obj: s.P.Obj, Off: s.P.Off + i + 1}, Len: s.Len - i - 1}
			}
			return Tuple{before, after, r.ts.True}
		}
	}
	return Tuple{s, Str{}, r.ts.False}
}

func inStringsIndex(r *Run, fn *ssa.Function, args []Value) Value {
	cs := r.mustConcreteString(args[0].(Str), "strings.Index")
	sep := r.mustConcreteString(args[1].(Str), "strings.Index")
	return r.ts.Const(64, uint64(int64(strings.Index(cs, sep))))
}
