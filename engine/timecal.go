package main

// Exact proleptic Gregorian calendar arithmetic as bit-vector terms, used by
// the time model (timestub.go). Day numbers count from 0001-01-01 = 0, as the
// model's ext field does in seconds. Everything is computed in unsigned 32-bit
// arithmetic after shifting by 2622 whole 400-year cycles, which is exact for
// years within about +-1,000,000; outside that range the caller gives up
// (engine failure, reported as inconclusive), it is never approximated.

import (
	"go/types"

	"golang.org/x/tools/go/ssa"
)

const (
	calCycles    = 2622
	calYearShift = 400 * calCycles    // 1,048,800 years
	calDayShift  = 146097 * calCycles // 383,066,334 days
	calYearLimit = 1000000
	calDayLimit  = 365000000
)

func (r *Run) c32(v uint64) *Term { return r.ts.Const(32, v) }

// calInRange: lo <= v <= hi (signed, 64-bit v).
func (r *Run) calInRange(v *Term, lo, hi int64) *Term {
	ts := r.ts
	return ts.And(ts.SLE(ts.Const(64, uint64(lo)), v), ts.SLE(v, ts.Const(64, uint64(hi))))
}

// requireRange: v must lie in [lo, hi] for the model to apply. Terms the model
// itself produced with a known range (calendar fields) are not re-checked.
func (r *Run) requireRange(v *Term, lo, hi int64, what string) {
	if kr, ok := r.calKnown[v.ID]; ok && kr[0] >= lo && kr[1] <= hi {
		return
	}
	if v.IsConst() {
		if x := int64(signExt(v.Val, 64)); x >= lo && x <= hi {
			return
		}
	}
	r.calRequire(r.calInRange(v, lo, hi), what)
}

func (r *Run) noteRange(v *Term, lo, hi int64) {
	if r.calKnown == nil {
		r.calKnown = map[int][2]int64{}
	}
	r.calKnown[v.ID] = [2]int64{lo, hi}
}

// calRequire forks on cond; the branch where it fails is outside the model.
func (r *Run) calRequire(cond *Term, what string) {
	if !r.branch(cond) {
		r.engineFail("time model: %s outside the modelled range", what)
	}
}

// daysBeforeMonth returns the day number (64-bit) of the first day of month m
// of year y, normalising m into 1..12 the way time.Date does.
func (r *Run) daysBeforeMonth(y, m *Term) *Term {
	ts := r.ts
	if y.IsConst() && m.IsConst() {
		return ts.Const(64, uint64(daysToMonth(signExt(y.Val, 64), signExt(m.Val, 64))))
	}
	r.requireRange(y, -calYearLimit, calYearLimit, "year")
	r.requireRange(m, -1000000, 1000000, "month")
	// month normalisation: m0 = m-1 = 12*q + rem, 0 <= rem < 12
	M := ts.Add(ts.Extract(m, 31, 0), r.c32(12*100000-1)) // m - 1 + 1,200,000 >= 0
	q := ts.UDiv(M, r.c32(12))                            // floor((m-1)/12) + 100000
	rem := ts.URem(M, r.c32(12))                          // 0..11, month-1
	// shifted year: Y = y + floor((m-1)/12) + calYearShift  (> 0)
	Y := ts.Add(ts.Add(ts.Extract(y, 31, 0), q), r.c32(calYearShift-100000))
	// March-based: January and February belong to the previous year
	janFeb := ts.ULT(rem, r.c32(2))
	Yp := ts.Ite(janFeb, ts.Sub(Y, r.c32(1)), Y)
	mp := ts.Ite(janFeb, ts.Add(rem, r.c32(10)), ts.Sub(rem, r.c32(2))) // 0 = March .. 11 = February
	// days from March 1 of shifted year 0 to March 1 of Yp
	d := ts.Mul(Yp, r.c32(365))
	d = ts.Add(d, ts.UDiv(Yp, r.c32(4)))
	d = ts.Sub(d, ts.UDiv(Yp, r.c32(100)))
	d = ts.Add(d, ts.UDiv(Yp, r.c32(400)))
	// days from March 1 to the first of month mp
	d = ts.Add(d, ts.UDiv(ts.Add(ts.Mul(mp, r.c32(153)), r.c32(2)), r.c32(5)))
	// d counts from March 1 of shifted year 0, i.e. of year -calYearShift;
	// 0001-01-01 is 306 days after 0000-03-01 and calDayShift after that cycle
	return ts.Sub(ts.ZExt(d, 64), ts.Const(64, calDayShift+306))
}

type civil struct {
	y, m, d, yday, wday *Term // 64-bit
}

// civilFromDays inverts daysBeforeMonth (Hinnant's civil_from_days).
func (r *Run) civilFromDays(days *Term) civil {
	ts := r.ts
	r.requireRange(days, -calDayLimit, calDayLimit, "date")
	n := ts.Add(ts.Extract(days, 31, 0), r.c32(calDayShift)) // days since 0001-01-01 of the shifted cycle start
	z := ts.Add(n, r.c32(306))                               // days since March 1 of shifted year 0
	era := ts.UDiv(z, r.c32(146097))
	doe := ts.URem(z, r.c32(146097))
	t := ts.Sub(doe, ts.UDiv(doe, r.c32(1460)))
	t = ts.Add(t, ts.UDiv(doe, r.c32(36524)))
	t = ts.Sub(t, ts.UDiv(doe, r.c32(146096)))
	yoe := ts.UDiv(t, r.c32(365)) // 0..399
	doy := ts.Sub(doe, ts.Sub(ts.Add(ts.Mul(yoe, r.c32(365)), ts.UDiv(yoe, r.c32(4))), ts.UDiv(yoe, r.c32(100))))
	mp := ts.UDiv(ts.Add(ts.Mul(doy, r.c32(5)), r.c32(2)), r.c32(153)) // 0..11
	d := ts.Add(ts.Sub(doy, ts.UDiv(ts.Add(ts.Mul(mp, r.c32(153)), r.c32(2)), r.c32(5))), r.c32(1))
	late := ts.ULT(mp, r.c32(10)) // March..December
	m := ts.Ite(late, ts.Add(mp, r.c32(3)), ts.Sub(mp, r.c32(9)))
	Y := ts.Add(ts.Add(yoe, ts.Mul(era, r.c32(400))), ts.Ite(late, r.c32(0), r.c32(1))) // shifted civil year
	// day of year: days since January 1 of Y
	leap := ts.And(ts.Eq(ts.URem(Y, r.c32(4)), r.c32(0)), ts.Or(ts.Ne(ts.URem(Y, r.c32(100)), r.c32(0)), ts.Eq(ts.URem(Y, r.c32(400)), r.c32(0))))
	// doy counts from March 1: Jan 1 of the next civil year is doy 306
	yday := ts.Ite(late, ts.Add(doy, ts.Ite(leap, r.c32(60), r.c32(59))), ts.Sub(doy, r.c32(306)))
	yday = ts.Add(yday, r.c32(1))
	wday := ts.URem(ts.Add(n, r.c32(1)), r.c32(7)) // 0001-01-01 is a Monday; calDayShift is a multiple of 7
	sx := func(t *Term) *Term { return ts.ZExt(t, 64) }
	c := civil{
		y:    ts.Sub(sx(Y), ts.Const(64, calYearShift)),
		m:    sx(m),
		d:    sx(d),
		yday: sx(yday),
		wday: sx(wday),
	}
	// |days| <= calDayLimit (365,000,000) puts the year within +-999,400
	r.noteRange(c.y, -999400, 999400)
	r.noteRange(c.m, 1, 12)
	r.noteRange(c.d, 1, 31)
	r.noteRange(c.yday, 1, 366)
	r.noteRange(c.wday, 0, 6)
	return c
}

// localAbs: seconds since 0001-01-01 00:00:00 in the time's own location.
func (r *Run) localAbs(v Value) *Term {
	_, e, loc := r.timeParts(v)
	return r.ts.Add(e, r.locOffset(loc))
}

// splitDays: abs seconds -> (day number, second of day), flooring.
func (r *Run) splitDays(abs *Term) (*Term, *Term) {
	ts := r.ts
	r.calRequire(r.calInRange(abs, -calDayLimit*86400, calDayLimit*86400), "instant")
	sh := ts.Add(abs, ts.Const(64, calDayShift*86400)) // >= 0
	// 46 bits are enough for the shifted value
	sh46 := ts.Extract(sh, 45, 0)
	q := ts.UDiv(sh46, ts.Const(46, 86400))
	rem := ts.URem(sh46, ts.Const(46, 86400))
	days := ts.Sub(ts.ZExt(q, 64), ts.Const(64, calDayShift))
	r.noteRange(days, -calDayLimit, calDayLimit)
	sod := ts.ZExt(rem, 64)
	r.noteRange(sod, 0, 86399)
	return days, sod
}

func (r *Run) civilOf(v Value) (civil, *Term) {
	days, sod := r.splitDays(r.localAbs(v))
	return r.civilFromDays(days), sod
}

func registerCalendarIntrinsics() {
	mk := func(f func(r *Run, c civil, sod *Term) Value) intrinsicFn {
		return func(r *Run, fn *ssa.Function, args []Value) Value {
			c, sod := r.civilOf(args[0])
			return f(r, c, sod)
		}
	}
	intrinsicTable["(time.Time).Date"] = mk(func(r *Run, c civil, sod *Term) Value { return Tuple{c.y, c.m, c.d} })
	intrinsicTable["(time.Time).Year"] = mk(func(r *Run, c civil, sod *Term) Value { return c.y })
	intrinsicTable["(time.Time).Month"] = mk(func(r *Run, c civil, sod *Term) Value { return c.m })
	intrinsicTable["(time.Time).Day"] = mk(func(r *Run, c civil, sod *Term) Value { return c.d })
	intrinsicTable["(time.Time).YearDay"] = mk(func(r *Run, c civil, sod *Term) Value { return c.yday })
	intrinsicTable["(time.Time).Weekday"] = mk(func(r *Run, c civil, sod *Term) Value { return c.wday })
	sodOnly := func(f func(r *Run, sod *Term) Value) intrinsicFn {
		return func(r *Run, fn *ssa.Function, args []Value) Value {
			_, sod := r.splitDays(r.localAbs(args[0]))
			return f(r, sod)
		}
	}
	hms := func(r *Run, sod *Term) (h, m, s *Term) {
		ts := r.ts
		s32 := ts.Extract(sod, 31, 0)
		h = ts.ZExt(ts.UDiv(s32, r.c32(3600)), 64)
		m = ts.ZExt(ts.UDiv(ts.URem(s32, r.c32(3600)), r.c32(60)), 64)
		s = ts.ZExt(ts.URem(s32, r.c32(60)), 64)
		return
	}
	intrinsicTable["(time.Time).Clock"] = sodOnly(func(r *Run, sod *Term) Value { h, m, s := hms(r, sod); return Tuple{h, m, s} })
	intrinsicTable["(time.Time).Hour"] = sodOnly(func(r *Run, sod *Term) Value { h, _, _ := hms(r, sod); return h })
	intrinsicTable["(time.Time).Minute"] = sodOnly(func(r *Run, sod *Term) Value { _, m, _ := hms(r, sod); return m })
	intrinsicTable["(time.Time).Second"] = sodOnly(func(r *Run, sod *Term) Value { _, _, s := hms(r, sod); return s })

	intrinsicTable["(time.Time).In"] = func(r *Run, fn *ssa.Function, args []Value) Value {
		w, e, _ := r.timeParts(args[0])
		loc := r.asPtr(args[1])
		if loc.IsNil() {
			r.fail("panic", "time: missing Location in call to Time.In", "")
		}
		return r.mkTime(w, e, loc)
	}
	intrinsicTable["(time.Time).Local"] = func(r *Run, fn *ssa.Function, args []Value) Value {
		w, e, _ := r.timeParts(args[0])
		return r.mkTime(w, e, Ptr{Obj: r.localLoc()})
	}
	cmp := func(f func(r *Run, w1, e1, w2, e2 *Term) Value) intrinsicFn {
		return func(r *Run, fn *ssa.Function, args []Value) Value {
			w1, e1, _ := r.timeParts(args[0])
			w2, e2, _ := r.timeParts(args[1])
			return f(r, w1, e1, w2, e2)
		}
	}
	before := func(r *Run, w1, e1, w2, e2 *Term) *Term {
		ts := r.ts
		return ts.Or(ts.SLT(e1, e2), ts.And(ts.Eq(e1, e2), ts.SLT(w1, w2)))
	}
	intrinsicTable["(time.Time).Before"] = cmp(func(r *Run, w1, e1, w2, e2 *Term) Value { return before(r, w1, e1, w2, e2) })
	intrinsicTable["(time.Time).After"] = cmp(func(r *Run, w1, e1, w2, e2 *Term) Value { return before(r, w2, e2, w1, e1) })
	intrinsicTable["(time.Time).Compare"] = cmp(func(r *Run, w1, e1, w2, e2 *Term) Value {
		ts := r.ts
		return ts.Ite(before(r, w1, e1, w2, e2), ts.Const(64, ^uint64(0)), ts.Ite(before(r, w2, e2, w1, e1), ts.Const(64, 1), ts.Const(64, 0)))
	})
	// Add: durations are nanoseconds; the sum is renormalised
	intrinsicTable["(time.Time).Add"] = func(r *Run, fn *ssa.Function, args []Value) Value {
		ts := r.ts
		w, e, loc := r.timeParts(args[0])
		d := args[1].(*Term)
		var dsec, dns *Term
		if d.IsConst() {
			v := int64(d.Val)
			dsec, dns = ts.Const(64, uint64(v/1e9)), ts.Const(64, uint64(v%1e9))
		} else {
			dsec = ts.SDiv(d, ts.Const(64, 1000000000))
			dns = ts.SRem(d, ts.Const(64, 1000000000))
		}
		carry, ns := r.normNsec(ts.Add(w, dns))
		return r.mkTime(ns, ts.Add(ts.Add(e, dsec), carry), loc)
	}
	// Sub: saturating in Go; the model requires the difference to fit
	intrinsicTable["(time.Time).Sub"] = func(r *Run, fn *ssa.Function, args []Value) Value {
		ts := r.ts
		w1, e1, _ := r.timeParts(args[0])
		w2, e2, _ := r.timeParts(args[1])
		ds := ts.Sub(e1, e2)
		r.calRequire(r.calInRange(ds, -9000000000, 9000000000), "Time.Sub difference")
		return ts.Add(ts.Mul(ds, ts.Const(64, 1000000000)), ts.Sub(w1, w2))
	}
	intrinsicTable["(time.Time).AddDate"] = func(r *Run, fn *ssa.Function, args []Value) Value {
		ts := r.ts
		w, _, loc := r.timeParts(args[0])
		c, sod := r.civilOf(args[0])
		y := ts.Add(c.y, args[1].(*Term))
		m := ts.Add(c.m, args[2].(*Term))
		d := ts.Add(c.d, args[3].(*Term))
		days := ts.Add(r.daysBeforeMonth(y, m), ts.Sub(d, ts.Const(64, 1)))
		abs := ts.Sub(ts.Add(ts.Mul(days, ts.Const(64, 86400)), sod), r.locOffset(loc))
		return r.mkTime(w, abs, loc)
	}
	unixOf := func(perSec int64) intrinsicFn {
		return func(r *Run, fn *ssa.Function, args []Value) Value {
			ts := r.ts
			v := args[0].(*Term)
			k := ts.Const(64, uint64(perSec))
			q := ts.SDiv(v, k)
			rem := ts.SRem(v, k)
			neg := ts.SLT(rem, ts.Const(64, 0))
			q = ts.Ite(neg, ts.Sub(q, ts.Const(64, 1)), q)
			rem = ts.Ite(neg, ts.Add(rem, k), rem)
			ns := ts.Mul(rem, ts.Const(64, uint64(1000000000/perSec)))
			return r.mkTime(ns, ts.Add(q, ts.Const(64, absToUnix)), Ptr{Obj: r.localLoc()})
		}
	}
	intrinsicTable["time.UnixMilli"] = unixOf(1000)
	intrinsicTable["time.UnixMicro"] = unixOf(1000000)
}

var _ = types.Typ
