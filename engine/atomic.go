package main

// sync/atomic: the functions have no Go bodies.  One path of the executor is
// one operation running alone, so an atomic access is an ordinary load or
// store; what makes it atomic matters only to the C12 monitor:
//
//   - an atomic access to a shared object is not a data race, so it is exempt
//     from the "store into shared object without its lock" rule;
//   - an atomic Store / Swap of a pointer into a shared location from which
//     the same operation earlier atomically loaded a non-nil pointer, with no
//     lock held at either point and no compare-and-swap, is a lost update: two
//     operations interleaved load/load/store/store and the first store's
//     effect disappears, so one of them does not produce the result it would
//     produce running alone.

import (
	"go/token"
	"go/types"

	"golang.org/x/tools/go/ssa"
)

func registerAtomicIntrinsics() {
	for _, sfx := range []string{"Int32", "Int64", "Uint32", "Uint64", "Uintptr", "Pointer"} {
		intrinsicTable["sync/atomic.Load"+sfx] = inAtomicLoad
		intrinsicTable["sync/atomic.Store"+sfx] = inAtomicStore
		intrinsicTable["sync/atomic.Swap"+sfx] = inAtomicSwap
		intrinsicTable["sync/atomic.CompareAndSwap"+sfx] = inAtomicCAS
		if sfx != "Pointer" {
			intrinsicTable["sync/atomic.Add"+sfx] = inAtomicRMW(token.ADD, false)
			intrinsicTable["sync/atomic.And"+sfx] = inAtomicRMW(token.AND, true)
			intrinsicTable["sync/atomic.Or"+sfx] = inAtomicRMW(token.OR, true)
		}
	}
	ident := func(r *Run, fn *ssa.Function, args []Value) Value { return args[0] }
	intrinsicTable["internal/abi.NoEscape"] = ident
	intrinsicTable["sync/atomic.runtime_procPin"] = func(r *Run, fn *ssa.Function, args []Value) Value { return r.ts.Const(64, 0) }
	intrinsicTable["sync/atomic.runtime_procUnpin"] = func(r *Run, fn *ssa.Function, args []Value) Value { return Tuple{} }
	intrinsicTable["sync.runtime_procPin"] = intrinsicTable["sync/atomic.runtime_procPin"]
	intrinsicTable["sync.runtime_procUnpin"] = intrinsicTable["sync/atomic.runtime_procUnpin"]
}

func atomicElem(fn *ssa.Function) types.Type {
	return fn.Signature.Params().At(0).Type().(*types.Pointer).Elem()
}

func (r *Run) atomicAddr(v Value) Ptr {
	p := r.asPtr(v)
	if p.Obj == nil && p.Bad == nil {
		r.fail("nil-deref", "atomic operation on nil address", "")
	}
	return p
}

func (r *Run) atomicLoad(p Ptr, t types.Type) Value {
	v := r.loadT(p, t)
	if r.monitor && p.Obj != nil && !p.Obj.Owned && !r.inPrefix() && isUnsafePointer(t) {
		if q := r.asPtr(v); !q.IsNil() && !r.anyLockHeld() {
			if r.atomicLoaded == nil {
				r.atomicLoaded = map[lockKey]bool{}
			}
			r.atomicLoaded[lockKey{p.Obj, p.Off}] = true
		}
	}
	return v
}

func (r *Run) anyLockHeld() bool {
	for _, v := range r.locks {
		if v == 2 {
			return true
		}
	}
	return false
}

func (r *Run) atomicStore(p Ptr, t types.Type, v Value, blind bool) {
	if blind && r.monitor && p.Obj != nil && !p.Obj.Owned && !r.inPrefix() &&
		r.atomicLoaded[lockKey{p.Obj, p.Off}] && !r.anyLockHeld() {
		r.flush()
		vec, ok := r.witness("shared-write")
		if !ok {
			return
		}
		r.addFinding("shared-write", "lost update: atomic load then plain atomic store of shared state, without a lock or compare-and-swap", p.String(), vec)
	}
	was := r.atomicOp
	r.atomicOp = true
	r.storeT(p, t, v)
	r.atomicOp = was
}

func inAtomicLoad(r *Run, fn *ssa.Function, args []Value) Value {
	return r.atomicLoad(r.atomicAddr(args[0]), atomicElem(fn))
}

func inAtomicStore(r *Run, fn *ssa.Function, args []Value) Value {
	r.atomicStore(r.atomicAddr(args[0]), atomicElem(fn), args[1], true)
	return Tuple{}
}

func inAtomicSwap(r *Run, fn *ssa.Function, args []Value) Value {
	p, t := r.atomicAddr(args[0]), atomicElem(fn)
	old := r.loadT(p, t)
	r.atomicStore(p, t, args[1], true)
	return old
}

func inAtomicCAS(r *Run, fn *ssa.Function, args []Value) Value {
	p, t := r.atomicAddr(args[0]), atomicElem(fn)
	cur := r.loadT(p, t)
	eq, ok := r.binop(token.EQL, cur, args[1], t, t).(*Term)
	if !ok {
		r.engineFail("atomic CompareAndSwap: comparison did not yield a boolean")
	}
	if r.branch(eq) {
		r.atomicStore(p, t, args[2], false)
		return r.ts.BoolConst(true)
	}
	return r.ts.BoolConst(false)
}

func inAtomicRMW(op token.Token, returnsOld bool) intrinsicFn {
	return func(r *Run, fn *ssa.Function, args []Value) Value {
		p, t := r.atomicAddr(args[0]), atomicElem(fn)
		old := r.loadT(p, t)
		nv := r.binop(op, old, args[1], t, t)
		r.atomicStore(p, t, nv, false)
		if returnsOld {
			return old
		}
		return nv
	}
}
