package main

// Engine: program loading and shared read-only program facts.

import (
	"fmt"
	"go/token"
	"go/types"
	"os"
	"path/filepath"
	"sort"
	"strings"
	"sync"

	"golang.org/x/tools/go/packages"
	"golang.org/x/tools/go/ssa"
	"golang.org/x/tools/go/ssa/ssautil"
	"golang.org/x/tools/go/types/typeutil"
)

type fnInfo struct {
	idx map[ssa.Value]int
	n   int
}

type Engine struct {
	prog     *ssa.Program
	pkgs     []*packages.Package
	spkgs    map[string]*ssa.Package
	repoPkgs map[*ssa.Package]bool
	sizes    types.Sizes
	fset     *token.FileSet

	mu        sync.Mutex
	canonMap  typeutil.Map
	offCache  map[*types.Struct][]int64
	infoCache sync.Map // *ssa.Function -> *fnInfo
	stubCache sync.Map
	srcHash   map[string]string

	harnessFiles map[string]bool
	overlay      map[string][]byte
}

const repoModule = "github.com/philpearl/avro"

func LoadEngine(repoDir string, overlay map[string][]byte) (*Engine, error) {
	cfg := &packages.Config{
		Mode:    packages.LoadAllSyntax,
		Dir:     repoDir,
		Overlay: overlay,
		Env:     append(os.Environ(), "GOFLAGS=-mod=mod", "GOPROXY=off"),
	}
	pkgs, err := packages.Load(cfg, ".", "./time", "./null")
	if err != nil {
		return nil, err
	}
	var errs []string
	packages.Visit(pkgs, nil, func(p *packages.Package) {
		for _, e := range p.Errors {
			errs = append(errs, e.Error())
		}
	})
	if len(errs) > 0 {
		sort.Strings(errs)
		if len(errs) > 12 {
			errs = errs[:12]
		}
		return nil, fmt.Errorf("package errors:\n%s", strings.Join(errs, "\n"))
	}
	prog, _ := ssautil.AllPackages(pkgs, ssa.InstantiateGenerics)
	prog.Build()
	e := &Engine{
		prog: prog, pkgs: pkgs, spkgs: map[string]*ssa.Package{}, repoPkgs: map[*ssa.Package]bool{},
		sizes: types.SizesFor("gc", "amd64"), fset: prog.Fset,
		offCache: map[*types.Struct][]int64{}, harnessFiles: map[string]bool{}, overlay: overlay,
	}
	for _, p := range prog.AllPackages() {
		e.spkgs[p.Pkg.Path()] = p
		if p.Pkg.Path() == repoModule || strings.HasPrefix(p.Pkg.Path(), repoModule+"/") {
			e.repoPkgs[p] = true
		}
	}
	for f := range overlay {
		e.harnessFiles[filepath.Clean(f)] = true
	}
	return e, nil
}

func (e *Engine) posStr(p token.Pos) string {
	if !p.IsValid() {
		return "?"
	}
	pos := e.fset.Position(p)
	return fmt.Sprintf("%s:%d", filepath.Base(pos.Filename), pos.Line)
}

func (e *Engine) isHarnessFn(fn *ssa.Function) bool {
	for f := fn; f != nil; f = f.Parent() {
		if strings.HasPrefix(f.Name(), "verif") || strings.HasPrefix(f.Name(), "ref") && e.inHarnessFile(f) {
			return true
		}
		if e.inHarnessFile(f) {
			return true
		}
	}
	return false
}

func (e *Engine) inHarnessFile(fn *ssa.Function) bool {
	if !fn.Pos().IsValid() {
		if fn.Origin() != nil && fn.Origin() != fn {
			return e.inHarnessFile(fn.Origin())
		}
		return false
	}
	name := filepath.Base(e.fset.Position(fn.Pos()).Filename)
	return strings.HasPrefix(name, "zz_verif")
}

func (e *Engine) canon(t types.Type) types.Type {
	e.mu.Lock()
	defer e.mu.Unlock()
	if v := e.canonMap.At(t); v != nil {
		return v.(types.Type)
	}
	e.canonMap.Set(t, t)
	return t
}

func (e *Engine) fieldOffsets(s *types.Struct) []int64 {
	e.mu.Lock()
	defer e.mu.Unlock()
	if o, ok := e.offCache[s]; ok {
		return o
	}
	fields := make([]*types.Var, s.NumFields())
	for i := range fields {
		fields[i] = s.Field(i)
	}
	o := e.sizes.Offsetsof(fields)
	e.offCache[s] = o
	return o
}

func (e *Engine) info(fn *ssa.Function) *fnInfo {
	if v, ok := e.infoCache.Load(fn); ok {
		return v.(*fnInfo)
	}
	fi := &fnInfo{idx: map[ssa.Value]int{}}
	add := func(v ssa.Value) {
		fi.idx[v] = fi.n
		fi.n++
	}
	for _, p := range fn.Params {
		add(p)
	}
	for _, p := range fn.FreeVars {
		add(p)
	}
	for _, b := range fn.Blocks {
		for _, in := range b.Instrs {
			if v, ok := in.(ssa.Value); ok {
				add(v)
			}
		}
	}
	e.infoCache.Store(fn, fi)
	return fi
}

// harnesses returns all functions named verifHarness_* in repo packages.
func (e *Engine) harnesses() []*ssa.Function {
	var out []*ssa.Function
	for p := range e.repoPkgs {
		for _, m := range p.Members {
			if fn, ok := m.(*ssa.Function); ok && strings.HasPrefix(fn.Name(), "verifHarness_") {
				out = append(out, fn)
			}
		}
	}
	sort.Slice(out, func(i, j int) bool { return out[i].String() < out[j].String() })
	return out
}
