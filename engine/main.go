package main

import (
	"encoding/json"
	"flag"
	"fmt"
	"go/constant"
	"os"
	"path/filepath"
	"regexp"
	"sort"
	"strings"
	"sync"
	"time"

	"go/types"

	"golang.org/x/tools/go/ssa"
)

type HarnessResult struct {
	Name         string         `json:"name"`
	Paths        int            `json:"paths"`
	Steps        int64          `json:"steps"`
	Findings     []Finding      `json:"findings"`
	FindingCount map[string]int `json:"finding_count"`
	Reached      map[string]int `json:"reached"`
	Declared     []string       `json:"declared_reach"`
	Unreached    []string       `json:"unreached"`
	Inconclusive []string       `json:"inconclusive"`
	Unknowns     int            `json:"unknowns"`
	Incomplete   bool           `json:"incomplete"`
	Cut          bool           `json:"cut_after_findings"` // exploration stopped early: new findings were already in hand
	newFindings  int
	cutAt        int
	Functions    []string         `json:"functions"`
	Cases        []ValidationCase `json:"-"`
	Validated    int              `json:"validated"`
	Mismatches   []string         `json:"mismatches"`
	MaxDecisions int              `json:"max_decisions"`
	SamplePaths  []PathSample     `json:"sample_paths"`
	mu           sync.Mutex
	fnSet        map[string]bool
}

type PathSample struct {
	Decisions []int    `json:"decisions"`
	Inputs    []string `json:"inputs"`
	Vector    []uint64 `json:"vector"`
	Events    []Event  `json:"events"`
	PCSize    int      `json:"pc_size"`
}

type Output struct {
	Solver     string           `json:"solver"`
	Harnesses  []*HarnessResult `json:"harnesses"`
	Queries    int              `json:"queries"`
	Sat        int              `json:"sat"`
	Unsat      int              `json:"unsat"`
	Unknown    int              `json:"unknown"`
	SolverSecs float64          `json:"solver_s"`
	WallSecs   float64          `json:"wall_s"`
	LoadSecs   float64          `json:"load_s"`
	Errors     []string         `json:"errors"`
}

type workItem struct {
	h      int
	prefix []int
}

type scheduler struct {
	mu       sync.Mutex
	cond     *sync.Cond
	stack    []workItem
	inflight int
	perH     []int
	maxPaths int
}

func (s *scheduler) push(it workItem) {
	s.mu.Lock()
	s.stack = append(s.stack, it)
	s.mu.Unlock()
	s.cond.Signal()
}

func (s *scheduler) pop() (workItem, bool) {
	s.mu.Lock()
	defer s.mu.Unlock()
	for len(s.stack) == 0 {
		if s.inflight == 0 {
			s.cond.Broadcast()
			return workItem{}, false
		}
		s.cond.Wait()
	}
	it := s.stack[len(s.stack)-1]
	s.stack = s.stack[:len(s.stack)-1]
	s.inflight++
	return it, true
}

func (s *scheduler) done() {
	s.mu.Lock()
	s.inflight--
	if s.inflight == 0 && len(s.stack) == 0 {
		s.cond.Broadcast()
	}
	s.mu.Unlock()
}

func main() {
	repo := flag.String("repo", "/repo", "repository directory")
	hdir := flag.String("harness", "/verif/harness", "harness directory (subdirs avro, time, null)")
	pat := flag.String("run", ".", "regexp selecting harness names")
	out := flag.String("out", "", "result JSON path")
	solver := flag.String("solver", "z3", "z3 | z3-new | cvc5 | cvc5-bvint")
	timeout := flag.Int("timeout", 60000, "per-query timeout ms")
	workers := flag.Int("workers", 8, "parallel workers")
	maxPaths := flag.Int("max-paths", 200000, "path budget per harness")
	validate := flag.Int("validate", 24, "native validation cases per harness (0 = none, -1 = all)")
	workdir := flag.String("work", "", "scratch directory for native replay (default: temp)")
	smtlog := flag.String("smtlog", "", "write SMT-LIB of worker 0 to this file")
	listOnly := flag.Bool("list", false, "list harnesses and exit")
	unwind := flag.Int("unwind", 64, "default loop bound")
	tier := flag.String("tier", "quick", "quick | thorough (seen by harnesses through verifThorough)")
	replay := flag.String("replay", "", "replay a violation file natively and print the trace")
	flag.BoolVar(&nativeRace, "race", false, "build the native replay with the race detector")
	knownPath := flag.String("known", "", "known_findings.json: findings listed there do not count towards the early cut")
	propID := flag.String("prop", "", "property id (for -known)")
	labelFilter := flag.String("label-filter", "", "regexp: assert findings whose label does not match are not counted towards the early cut")
	ignoreKinds := flag.String("ignore-kinds", "", "comma-separated finding kinds that are not counted towards the early cut")
	cutAfter := flag.Int("cut-after", 0, "once a harness has a finding that is not a listed known finding, explore this many further paths of it and stop (0 = never)")
	cutHarnesses := flag.Int("cut-harnesses", 0, "once this many harnesses have such findings, skip harnesses not yet started (0 = never)")
	flag.Parse()
	thoroughTier = *tier == "thorough"
	os.Setenv("VERIF_TIER", *tier)

	start := time.Now()
	overlay, err := buildOverlay(*repo, *hdir)
	if err != nil {
		fmt.Fprintln(os.Stderr, "overlay:", err)
		os.Exit(3)
	}
	eng, err := LoadEngine(*repo, overlay)
	if err != nil {
		fmt.Fprintln(os.Stderr, "INCONCLUSIVE load:", err)
		os.Exit(3)
	}
	loadSecs := time.Since(start).Seconds()
	re := regexp.MustCompile(*pat)
	var hs []*ssa.Function
	for _, h := range eng.harnesses() {
		if re.MatchString(h.Name()) {
			hs = append(hs, h)
		}
	}
	if *replay != "" {
		os.Exit(replayFile(*repo, *hdir, eng, *replay))
	}
	if *listOnly {
		for _, h := range hs {
			fmt.Println(h.Name())
		}
		return
	}
	if len(hs) == 0 {
		fmt.Fprintln(os.Stderr, "INCONCLUSIVE: no harness matches", *pat)
		os.Exit(3)
	}
	results := make([]*HarnessResult, len(hs))
	for i, h := range hs {
		results[i] = &HarnessResult{Name: h.Name(), Reached: map[string]int{}, FindingCount: map[string]int{}, fnSet: map[string]bool{}}
		results[i].Declared = declaredReach(h)
	}
	sch := &scheduler{perH: make([]int, len(hs)), maxPaths: *maxPaths}
	isNew := newFindingFilter(*knownPath, *propID, *labelFilter, *ignoreKinds)
	violating := 0 // harnesses with new findings (under sch.mu)
	sch.cond = sync.NewCond(&sch.mu)
	for i := len(hs) - 1; i >= 0; i-- {
		sch.stack = append(sch.stack, workItem{h: i})
	}
	var wg sync.WaitGroup
	var statMu sync.Mutex
	total := &Output{Solver: *solver}
	for w := 0; w < *workers; w++ {
		wg.Add(1)
		go func(w int) {
			defer wg.Done()
			lp := ""
			if w == 0 {
				lp = *smtlog
			}
			sol, err := NewSolver(*solver, *timeout, lp)
			if err != nil {
				statMu.Lock()
				total.Errors = append(total.Errors, err.Error())
				statMu.Unlock()
				return
			}
			sol.send(timePreamble)
			ts := NewTermStore()
			npaths := 0
			for {
				it, ok := sch.pop()
				if !ok {
					break
				}
				hr := results[it.h]
				sch.mu.Lock()
				sch.perH[it.h]++
				over := sch.perH[it.h] > sch.maxPaths
				sch.mu.Unlock()
				if over {
					hr.mu.Lock()
					hr.Incomplete = true
					hr.mu.Unlock()
					sch.done()
					continue
				}
				if *cutAfter > 0 || *cutHarnesses > 0 {
					sch.mu.Lock()
					nviol := violating
					sch.mu.Unlock()
					hr.mu.Lock()
					cut := (*cutAfter > 0 && hr.cutAt > 0 && hr.Paths >= hr.cutAt) ||
						(*cutHarnesses > 0 && nviol >= *cutHarnesses && hr.newFindings == 0)
					if cut {
						hr.Cut = true
					}
					hr.mu.Unlock()
					if cut {
						sch.done()
						continue
					}
				}
				if sol.dead {
					sol, _ = NewSolver(*solver, *timeout, "")
					sol.send(timePreamble)
				}
				// bound term-store growth
				npaths++
				if npaths%2000 == 0 {
					ts = NewTermStore()
					sol.Close()
					sol2, err := NewSolver(*solver, *timeout, "")
					if err == nil {
						statMu.Lock()
						addStats(total, &sol.Stats)
						statMu.Unlock()
						sol = sol2
						sol.send(timePreamble)
					}
				}
				r := newRun(eng, ts, sol, hs[it.h], it.prefix, *unwind)
				r.execute()
				for _, alt := range r.newItems {
					sch.push(workItem{h: it.h, prefix: alt})
				}
				if hr.absorb(r, isNew, *cutAfter) {
					sch.mu.Lock()
					violating++
					sch.mu.Unlock()
				}
				sch.done()
			}
			statMu.Lock()
			addStats(total, &sol.Stats)
			statMu.Unlock()
			sol.Close()
		}(w)
	}
	wg.Wait()

	for _, hr := range results {
		for _, l := range hr.Declared {
			if hr.Reached[l] == 0 {
				hr.Unreached = append(hr.Unreached, l)
			}
		}
		for f := range hr.fnSet {
			hr.Functions = append(hr.Functions, f)
		}
		sort.Strings(hr.Functions)
	}

	// native validation / replay
	if *validate != 0 {
		wd := *workdir
		if wd == "" {
			wd, _ = os.MkdirTemp("", "symgo-replay-")
			defer os.RemoveAll(wd)
		}
		if err := nativeValidate(*repo, *hdir, wd, eng, results, *validate); err != nil {
			total.Errors = append(total.Errors, "native validation: "+err.Error())
		}
	}

	total.Harnesses = results
	total.WallSecs = time.Since(start).Seconds()
	total.LoadSecs = loadSecs
	data, _ := json.MarshalIndent(total, "", " ")
	if *out != "" {
		os.WriteFile(*out, data, 0o644)
	}
	// summary on stdout
	bad := false
	for _, hr := range results {
		status := "ok"
		if hr.Cut {
			status = "cut (findings in hand)"
		} else if len(hr.Inconclusive) > 0 || hr.Incomplete || len(hr.Unreached) > 0 {
			status = "INCONCLUSIVE"
			bad = true
		}
		fmt.Printf("%-60s paths=%-6d findings=%-3d validated=%-4d %s\n", hr.Name, hr.Paths, len(hr.Findings), hr.Validated, status)
		for _, f := range hr.Findings {
			fmt.Printf("    [%s] %s @ %s (%s) confirmed=%s x%d\n", f.Kind, f.Label, f.Site, f.Pos, f.Confirmed, hr.FindingCount[findingKey(&f)])
		}
		for _, m := range hr.Inconclusive {
			fmt.Printf("    inconclusive: %s\n", m)
		}
		for _, m := range hr.Unreached {
			fmt.Printf("    unreached label: %s\n", m)
		}
		for _, m := range hr.Mismatches {
			fmt.Printf("    MISMATCH: %s\n", m)
		}
	}
	for _, e := range total.Errors {
		fmt.Println("error:", e)
		bad = true
	}
	fmt.Printf("queries=%d sat=%d unsat=%d unknown=%d solver=%.1fs wall=%.1fs\n", total.Queries, total.Sat, total.Unsat, total.Unknown, total.SolverSecs, total.WallSecs)
	if bad {
		os.Exit(3)
	}
}

var thoroughTier bool

func replayFile(repo, hdir string, eng *Engine, path string) int {
	data, err := os.ReadFile(path)
	if err != nil {
		fmt.Fprintln(os.Stderr, err)
		return 2
	}
	var v struct {
		Harness string   `json:"harness"`
		Kind    string   `json:"kind"`
		Label   string   `json:"label"`
		Tags    []string `json:"input_tags"`
		Vector  []uint64 `json:"input_vector"`
	}
	if err := json.Unmarshal(data, &v); err != nil {
		fmt.Fprintln(os.Stderr, err)
		return 2
	}
	hr := &HarnessResult{Name: v.Harness, Reached: map[string]int{}, FindingCount: map[string]int{}}
	hr.Findings = []Finding{{Harness: v.Harness, Kind: v.Kind, Label: v.Label, Tags: v.Tags, Vector: v.Vector}}
	wd, _ := os.MkdirTemp("", "symgo-replay-")
	defer os.RemoveAll(wd)
	if err := nativeValidate(repo, hdir, wd, eng, []*HarnessResult{hr}, 0); err != nil {
		fmt.Fprintln(os.Stderr, "replay failed:", err)
		return 3
	}
	f := hr.Findings[0]
	fmt.Printf("harness=%s inputs=%v vector=%v\nnative trace: %s\nreproduced=%s\n", v.Harness, v.Tags, v.Vector, f.NativeOut, f.Confirmed)
	if f.Confirmed == "yes" {
		return 1
	}
	return 0
}

func addStats(o *Output, s *SolverStats) {
	o.Queries += s.Queries
	o.Sat += s.SatN
	o.Unsat += s.UnsatN
	o.Unknown += s.UnknownN
	o.SolverSecs += s.Time.Seconds()
	if s.Errors > 0 {
		o.Errors = append(o.Errors, fmt.Sprintf("%d solver error lines", s.Errors))
	}
}

func findingKey(f *Finding) string { return f.Kind + "|" + f.Label + "|" + f.Site }

// absorb merges one finished path; it reports whether this path gave the
// harness its first finding that is not a listed known finding.
func (hr *HarnessResult) absorb(r *Run, isNew func(*Finding) bool, cutAfter int) (firstNew bool) {
	hr.mu.Lock()
	defer hr.mu.Unlock()
	hr.Paths++
	hr.Steps += int64(r.steps)
	hr.Unknowns += r.unknowns
	if len(r.taken) > hr.MaxDecisions {
		hr.MaxDecisions = len(r.taken)
	}
	for l := range r.reached {
		hr.Reached[l]++
	}
	for f := range r.fnSeen {
		hr.fnSet[f] = true
	}
	if r.inconcl != "" {
		found := false
		for _, m := range hr.Inconclusive {
			if m == r.inconcl {
				found = true
			}
		}
		if !found && len(hr.Inconclusive) < 20 {
			hr.Inconclusive = append(hr.Inconclusive, r.inconcl)
		}
	}
	for i := range r.findings {
		f := r.findings[i]
		k := findingKey(&f)
		hr.FindingCount[k]++
		if hr.FindingCount[k] == 1 {
			hr.Findings = append(hr.Findings, f)
			if isNew != nil && isNew(&f) {
				hr.newFindings++
				if hr.newFindings == 1 {
					firstNew = true
					hr.cutAt = hr.Paths + cutAfter
				}
			}
		}
	}
	if r.validate != nil {
		hr.Cases = append(hr.Cases, *r.validate)
		if len(hr.SamplePaths) < 3 {
			hr.SamplePaths = append(hr.SamplePaths, PathSample{Decisions: r.taken, Inputs: r.inputTags(), Vector: r.validate.Vector, Events: r.validate.Events, PCSize: len(r.pc)})
		}
	}
	return firstNew
}

func declaredReach(h *ssa.Function) []string {
	seen := map[string]bool{}
	var visit func(fn *ssa.Function)
	visit = func(fn *ssa.Function) {
		for _, b := range fn.Blocks {
			for _, in := range b.Instrs {
				if c, ok := in.(*ssa.Call); ok {
					if callee := c.Call.StaticCallee(); callee != nil && callee.Name() == "verifReach" && len(c.Call.Args) == 1 {
						if k, ok := c.Call.Args[0].(*ssa.Const); ok && k.Value != nil {
							seen[constant.StringVal(k.Value)] = true
						}
					}
				}
			}
		}
		for _, a := range fn.AnonFuncs {
			visit(a)
		}
	}
	visit(h)
	var out []string
	for l := range seen {
		out = append(out, l)
	}
	sort.Strings(out)
	return out
}

func newRun(eng *Engine, ts *TermStore, sol *Solver, h *ssa.Function, prefix []int, unwind int) *Run {
	r := &Run{
		eng: eng, ts: ts, sol: sol, harness: h, hname: h.Name(),
		prefix:  append([]int(nil), prefix...),
		globals: map[*ssa.Global]*Object{}, rtypes: map[types.Type]*Object{}, strLits: map[string]*Object{},
		reached: map[string]bool{}, unwind: unwind, maxDepth: 200, allocMax: 64,
		locks: map[lockKey]int{}, poolItems: map[lockKey][]Value{}, dates: map[[2]int]*dateFields{},
		flags: map[string]int64{}, fnSeen: map[string]bool{}, fconv: map[[2]int]*Term{}, ufMemo: map[string]*Term{}, formats: map[[2]int]Str{}, initOK: map[*ssa.Package]bool{},
	}
	return r
}

// execute runs one path.
func (r *Run) execute() {
	r.sol.Push()
	defer func() {
		if e := recover(); e != nil {
			switch x := e.(type) {
			case pathEnd:
				_ = x
			case engineErr:
				r.inconcl = x.msg
			default:
				// interpreter bug: report as inconclusive with the panic text
				r.inconcl = fmt.Sprintf("engine panic: %v @ %s", e, r.where())
				if os.Getenv("SYMGO_DEBUG") != "" {
					panic(e)
				}
			}
		}
		for r.sol.Depth() > 0 {
			r.sol.Pop()
		}
	}()
	r.initPackages()
	r.callFn(r.harness, nil, nil, 0)
	r.finishPath()
}

func (r *Run) initPackages() {
	for _, path := range []string{repoModule, repoModule + "/time", repoModule + "/null"} {
		p := r.eng.spkgs[path]
		if p == nil {
			continue
		}
		if init := p.Func("init"); init != nil {
			r.callFn(init, nil, nil, 0)
		}
	}
}

// finishPath builds the native validation case from a model of the path.
func (r *Run) finishPath() {
	if r.noValidate {
		return
	}
	r.flush()
	if r.sol.CheckSat() != Sat {
		return
	}
	var terms []*Term
	for _, in := range r.inputs {
		terms = append(terms, in.T)
	}
	nIn := len(terms)
	for i := range r.events {
		ev := &r.events[i]
		if ev.term != nil {
			terms = append(terms, ev.term)
		}
		terms = append(terms, ev.terms...)
	}
	vals, err := r.sol.GetValues(terms)
	if err != nil {
		return
	}
	vc := &ValidationCase{Harness: r.hname, Vector: vals[:nIn], Tags: r.inputTags()}
	k := nIn
	for _, ev := range r.events {
		e2 := Event{Kind: ev.Kind, Label: ev.Label}
		if ev.term != nil {
			e2.Val = fmt.Sprintf("%d", vals[k])
			k++
		}
		if len(ev.terms) > 0 {
			var sb strings.Builder
			for range ev.terms {
				fmt.Fprintf(&sb, "%02x", vals[k])
				k++
			}
			e2.Val = sb.String()
		} else if ev.terms != nil {
			e2.Val = ""
		}
		vc.Events = append(vc.Events, e2)
	}
	r.validate = vc
}

// buildOverlay maps harness files into the repo's package directories.
func buildOverlay(repo, hdir string) (map[string][]byte, error) {
	ov := map[string][]byte{}
	for sub, dst := range map[string]string{"avro": "", "time": "time", "null": "null"} {
		files, _ := filepath.Glob(filepath.Join(hdir, sub, "*.go"))
		pkg := sub
		for _, f := range files {
			if strings.HasSuffix(f, "_test.go") {
				continue
			}
			data, err := os.ReadFile(f)
			if err != nil {
				return nil, err
			}
			ov[filepath.Join(repo, dst, filepath.Base(f))] = data
		}
		// shared files, instantiated per package
		if len(files) > 0 {
			tmpls, _ := filepath.Glob(filepath.Join(hdir, "common", "*.go.tmpl"))
			for _, tf := range tmpls {
				src, err := os.ReadFile(tf)
				if err != nil {
					return nil, err
				}
				text := strings.ReplaceAll(string(src), "PKGNAME", pkg)
				if pkg == "avro" {
					text = strings.ReplaceAll(text, "AVRO.", "")
					text = strings.ReplaceAll(text, "IMPORTS", "")
				} else {
					text = strings.ReplaceAll(text, "AVRO.", "avro.")
					text = strings.ReplaceAll(text, "IMPORTS", "import \"github.com/philpearl/avro\"")
				}
				ov[filepath.Join(repo, dst, strings.TrimSuffix(filepath.Base(tf), ".tmpl"))] = []byte(text)
			}
		}
	}
	return ov, nil
}

// newFindingFilter returns the predicate "this finding is not explained by the
// known-findings file" used by the early cut. The driver (check) makes the real
// decision; this only has to agree with it on the unchanged tree, where no
// finding may pass the filter.
func newFindingFilter(knownPath, prop, labelFilter, ignoreKinds string) func(*Finding) bool {
	ignored := map[string]bool{"unknown": true}
	for _, k := range strings.Split(ignoreKinds, ",") {
		ignored[k] = true
	}
	type entry struct {
		Property string            `json:"property"`
		Status   string            `json:"status"`
		Key      map[string]string `json:"key"`
	}
	var file struct {
		Findings []entry `json:"findings"`
	}
	if knownPath != "" {
		if data, err := os.ReadFile(knownPath); err == nil {
			json.Unmarshal(data, &file)
		}
	}
	var lf *regexp.Regexp
	if labelFilter != "" {
		lf = regexp.MustCompile("^(?:" + labelFilter + ")")
	}
	type ck struct {
		re *regexp.Regexp
		e  entry
	}
	var known []ck
	for _, e := range file.Findings {
		if e.Status != "known" || e.Property != prop {
			continue
		}
		c := ck{e: e}
		if h, ok := e.Key["harness"]; ok {
			c.re = regexp.MustCompile("^(?:" + h + ")$")
		}
		known = append(known, c)
	}
	return func(f *Finding) bool {
		if ignored[f.Kind] {
			return false
		}
		if lf != nil && f.Kind == "assert" && !lf.MatchString(f.Label) {
			return false
		}
		for _, k := range known {
			if k.re != nil && !k.re.MatchString(f.Harness) {
				continue
			}
			if v, ok := k.e.Key["label"]; ok && v != f.Label {
				continue
			}
			if v, ok := k.e.Key["kind"]; ok && v != f.Kind {
				continue
			}
			if v, ok := k.e.Key["site"]; ok && v != f.Site {
				continue
			}
			if v, ok := k.e.Key["detail"]; ok && v != f.Detail {
				continue
			}
			return false
		}
		return true
	}
}
