package main

// One Run = one path of one harness, executed from the start following a
// decision prefix.  New alternatives discovered beyond the prefix are
// returned to the scheduler as longer prefixes.

import (
	"fmt"
	"go/token"
	"go/types"
	"sort"
	"strings"

	"golang.org/x/tools/go/ssa"
)

type InputVar struct {
	Name  string
	Tag   string
	Width int
	T     *Term
}

type Event struct {
	Kind  string `json:"kind"` // reach, fail, obs, panic
	Label string `json:"label"`
	Val   string `json:"val,omitempty"`
	term  *Term
	terms []*Term
}

type Finding struct {
	Harness    string   `json:"harness"`
	Kind       string   `json:"kind"`
	Label      string   `json:"label"`
	Site       string   `json:"site"`   // innermost non-harness function
	Pos        string   `json:"pos"`    // file:line
	Stack      []string `json:"stack"`  // call stack (function names)
	Vector     []uint64 `json:"vector"` // model for the inputs
	Tags       []string `json:"tags"`   // input tags (same order)
	Decisions  []int    `json:"decisions"`
	Detail     string   `json:"detail,omitempty"`
	Confirmed  string   `json:"confirmed,omitempty"`   // "", "yes", "no", "n/a"
	EngineOnly bool     `json:"engine_only,omitempty"` // found in a harness that is not replayable natively (verifNoValidate)
	NativeOut  string   `json:"native_out,omitempty"`
	StepNo     int      `json:"-"`
}

type pathEnd struct{ reason string }
type engineErr struct{ msg string }

type Frame struct {
	fn      *ssa.Function
	info    *fnInfo
	env     []Value
	visits  map[int]int // block index -> visits
	defers  []func()
	lastPos token.Pos
	caller  *Frame
}

type Run struct {
	eng     *Engine
	ts      *TermStore
	sol     *Solver
	harness *ssa.Function
	hname   string

	prefix   []int
	dpos     int
	taken    []int   // decisions taken on this path
	newItems [][]int // alternatives discovered

	pc      []*Term
	pending []*Term // pc terms not yet sent to the solver

	objs         int
	globals      map[*ssa.Global]*Object
	rtypes       map[types.Type]*Object // via canonical type
	strLits      map[string]*Object
	locks        map[lockKey]int
	calKnown     map[int][2]int64 // time model: value ranges of calendar terms it produced
	atomicOp     bool             // inside an atomic store (exempt from the shared-write rule)
	atomicLoaded map[lockKey]bool // shared pointer locations atomically loaded (non-nil) by this operation
	poolItems    map[lockKey][]Value
	dates        map[[2]int]*dateFields
	utc          *Object
	local        *Object
	fnSeen       map[string]bool
	fconv        map[[2]int]*Term
	ufMemo       map[string]*Term
	noValidate   bool
	symNodes     []*Object
	formats      map[[2]int]Str
	jsonMarks    map[byte]*Object
	initOK       map[*ssa.Package]bool

	frame *Frame
	depth int
	steps int

	inputs   []*InputVar
	events   []Event
	findings []Finding
	reached  map[string]bool
	fresh    int

	unwind    int
	maxDepth  int
	allocMax  int64
	strict    bool // heap typing violations are findings
	monitor   bool // C12 ownership monitor
	inconcl   string
	unknowns  int
	timeZones map[int64]*Object
	crcMemo   map[string]*Term
	flags     map[string]int64

	validate *ValidationCase

	allVars []*Term
	model_  *evalCtx // a model of pc (nil = none known)
	skipped int      // solver queries avoided thanks to model_
}

type ValidationCase struct {
	Harness string   `json:"harness"`
	Vector  []uint64 `json:"vector"`
	Tags    []string `json:"tags"`
	Events  []Event  `json:"events"`
}

func (r *Run) inPrefix() bool { return r.dpos < len(r.prefix) }

func (r *Run) engineFail(format string, args ...interface{}) {
	panic(engineErr{fmt.Sprintf(format, args...) + " @ " + r.where()})
}

func (r *Run) where() string {
	if r.frame == nil {
		return "?"
	}
	return fmt.Sprintf("%s (%s)", r.frame.fn.String(), r.eng.posStr(r.frame.lastPos))
}

// flush sends pending path-condition terms to the solver.
func (r *Run) flush() {
	for _, t := range r.pending {
		r.sol.Assert(t)
	}
	r.pending = r.pending[:0]
}

func (r *Run) assume(t *Term) {
	if t.IsConst() {
		if t.Val == 0 {
			panic(pathEnd{"assume false"})
		}
		return
	}
	r.pc = append(r.pc, t)
	r.pending = append(r.pending, t)
	if r.model_ != nil {
		if v, ok := r.ts.eval(t, r.model_); !ok || v == 0 {
			r.model_ = nil
		}
	}
}

// fetchModel records the solver's current model (call right after Sat, in
// the scope that produced it).
func (r *Run) fetchModel() {
	if len(r.allVars) == 0 {
		r.model_ = &evalCtx{vals: map[string]uint64{}, memo: map[int]evalRes{}}
		return
	}
	vs, err := r.sol.GetValues(r.allVars)
	if err != nil {
		r.model_ = nil
		return
	}
	m := &evalCtx{vals: make(map[string]uint64, len(vs)), memo: map[int]evalRes{}}
	for i, v := range r.allVars {
		m.vals[v.Name] = vs[i]
	}
	r.model_ = m
}

func (r *Run) feasible(t *Term) SatResult {
	if t.IsConst() {
		if t.Val != 0 {
			return Sat
		}
		return Unsat
	}
	if r.model_ != nil {
		if v, ok := r.ts.eval(t, r.model_); ok && v != 0 {
			r.skipped++
			return Sat
		}
	}
	r.flush()
	r.sol.Push()
	r.sol.Assert(t)
	res := r.sol.CheckSat()
	if res == Sat {
		// this model satisfies pc and t; it stays valid for pc, and for
		// pc+t if the caller goes on to assume t
		r.fetchModel()
	}
	r.sol.Pop()
	if res == Unknown {
		r.unknowns++
	}
	return res
}

// decide picks among n options. feas(i) is consulted only in new territory.
func (r *Run) decide(n int, feas func(i int) bool) int {
	if r.inPrefix() {
		c := r.prefix[r.dpos]
		r.dpos++
		r.taken = append(r.taken, c)
		return c
	}
	var opts []int
	for i := 0; i < n; i++ {
		if feas == nil || feas(i) {
			opts = append(opts, i)
		}
	}
	if len(opts) == 0 {
		panic(pathEnd{"no feasible option"})
	}
	for _, o := range opts[1:] {
		alt := make([]int, len(r.taken)+1)
		copy(alt, r.taken)
		alt[len(r.taken)] = o
		r.newItems = append(r.newItems, alt)
	}
	r.dpos++
	r.prefix = append(r.prefix, opts[0]) // keep dpos == len(prefix)
	r.taken = append(r.taken, opts[0])
	return opts[0]
}

// branch decides a symbolic condition.
func (r *Run) branch(c *Term) bool {
	if c.IsConst() {
		return c.Val != 0
	}
	ch := r.decide(2, func(i int) bool {
		if i == 0 {
			return r.feasible(c) != Unsat
		}
		return r.feasible(r.ts.Not(c)) != Unsat
	})
	if ch == 0 {
		r.assume(c)
		return true
	}
	r.assume(r.ts.Not(c))
	return false
}

// concretize returns a concrete value for t, forking over all feasible ones.
func (r *Run) concretize(t *Term, what string) uint64 {
	if t.IsConst() {
		return t.Val
	}
	if r.inPrefix() {
		v := uint64(r.prefix[r.dpos])
		r.dpos++
		r.taken = append(r.taken, int(v))
		r.assume(r.ts.Eq(t, r.ts.Const(t.W, v)))
		return v
	}
	// enumerate feasible values
	const maxVals = 140
	r.flush()
	var vals []uint64
	r.sol.Push()
	for {
		res := r.sol.CheckSat()
		if res == Unsat {
			break
		}
		if res == Unknown {
			r.sol.Pop()
			r.engineFail("concretize(%s): solver unknown", what)
		}
		vs, err := r.sol.GetValues([]*Term{t})
		if err != nil {
			r.sol.Pop()
			r.engineFail("concretize(%s): %v", what, err)
		}
		vals = append(vals, vs[0])
		if len(vals) > maxVals {
			r.sol.Pop()
			r.engineFail("concretize(%s): more than %d feasible values for %s", what, maxVals, t.Short())
		}
		r.sol.Assert(r.ts.Ne(t, r.ts.Const(t.W, vs[0])))
	}
	r.sol.Pop()
	if len(vals) == 0 {
		panic(pathEnd{"infeasible at concretize"})
	}
	sort.Slice(vals, func(i, j int) bool { return vals[i] < vals[j] })
	for _, v := range vals[1:] {
		if v > 1<<31 {
			r.engineFail("concretize(%s): value %d too large for a decision", what, v)
		}
		alt := make([]int, len(r.taken)+1)
		copy(alt, r.taken)
		alt[len(r.taken)] = int(v)
		r.newItems = append(r.newItems, alt)
	}
	if vals[0] > 1<<31 {
		r.engineFail("concretize(%s): value %d too large for a decision", what, vals[0])
	}
	r.dpos++
	r.prefix = append(r.prefix, int(vals[0]))
	r.taken = append(r.taken, int(vals[0]))
	r.assume(r.ts.Eq(t, r.ts.Const(t.W, vals[0])))
	return vals[0]
}

// concretizeSigned is concretize for values that may be negative but small.
func (r *Run) concretizeSigned(t *Term, what string) int64 {
	if t.IsConst() {
		return signExt(t.Val, t.W)
	}
	// shift into a non-negative window so that decisions stay small
	off := uint64(1 << 20)
	sh := r.ts.Add(t, r.ts.Const(t.W, off))
	v := r.concretize(sh, what)
	return int64(v) - int64(off)
}

// ---------- findings ----------

func (r *Run) stack() []string {
	var out []string
	for f := r.frame; f != nil; f = f.caller {
		out = append(out, f.fn.String())
	}
	return out
}

func (r *Run) site() (string, string) {
	for f := r.frame; f != nil; f = f.caller {
		if !r.eng.isHarnessFn(f.fn) {
			return f.fn.String(), r.eng.posStr(f.lastPos)
		}
	}
	if r.frame != nil {
		return r.frame.fn.String(), r.eng.posStr(r.frame.lastPos)
	}
	return "?", "?"
}

func (r *Run) model() ([]uint64, bool) {
	ts := make([]*Term, len(r.inputs))
	for i, in := range r.inputs {
		ts[i] = in.T
	}
	vs, err := r.sol.GetValues(ts)
	if err != nil {
		return nil, false
	}
	return vs, true
}

func (r *Run) inputTags() []string {
	out := make([]string, len(r.inputs))
	for i, in := range r.inputs {
		out[i] = in.Tag
	}
	return out
}

// report records a finding; the solver must be in a Sat state whose model is
// the witness when withModel is set (cond is asserted in a pushed scope by the
// caller).
func (r *Run) addFinding(kind, label, detail string, vec []uint64) {
	site, pos := r.site()
	f := Finding{
		Harness: r.hname, Kind: kind, Label: label, Site: site, Pos: pos,
		Stack: r.stack(), Vector: vec, Tags: r.inputTags(),
		Decisions: append([]int(nil), r.taken...), Detail: detail, StepNo: r.steps,
		EngineOnly: r.noValidate,
	}
	r.findings = append(r.findings, f)
}

// fail: the current path unconditionally fails here (panic etc.).
func (r *Run) fail(kind, label, detail string) {
	if !r.inPrefix() {
		r.flush()
		var vec []uint64
		res := r.sol.CheckSat()
		if res == Sat {
			vec, _ = r.model()
		} else if res == Unknown {
			// is this path feasible at all? ask the other solver before saying anything
			res, vec = r.secondOpinion(nil)
		}
		switch res {
		case Unsat:
			panic(pathEnd{"infeasible"})
		case Sat:
			r.addFinding(kind, label, detail, vec)
			r.events = append(r.events, Event{Kind: "panic", Label: kind})
		default:
			r.unknowns++
			r.addFinding("unknown", label, "feasibility of the path reaching this "+kind+" is undecided by both solvers: "+detail, nil)
		}
	}
	panic(pathEnd{kind + ": " + label})
}

// witness: a finding about the current path (not about a condition) needs the
// path to be feasible. Returns a model of the inputs; ends the path if it is
// infeasible (it can have survived a timed-out feasibility query); records an
// 'unknown' and returns false if neither solver decides.
func (r *Run) witness(what string) ([]uint64, bool) {
	res := r.sol.CheckSat()
	var vec []uint64
	if res == Sat {
		vec, _ = r.model()
	} else if res == Unknown {
		res, vec = r.secondOpinion(nil)
	}
	switch res {
	case Unsat:
		panic(pathEnd{"infeasible"})
	case Sat:
		return vec, true
	}
	r.unknowns++
	r.addFinding("unknown", what, "feasibility of the path with this "+what+" finding is undecided by both solvers", nil)
	return nil, false
}

// secondOpinion re-decides the path condition (and extra, if given) in a fresh
// process of the other solver with a longer limit; with a model when sat.
func (r *Run) secondOpinion(extra *Term) (SatResult, []uint64) {
	kind := "z3-new"
	if r.sol.kind == "z3-new" {
		kind = "z3"
	}
	s, err := NewSolver(kind, 120000, "")
	if err != nil {
		return Unknown, nil
	}
	defer s.Close()
	s.hardMs = 150000
	s.send(timePreamble)
	for _, t := range r.pc {
		s.Assert(t)
	}
	if extra != nil {
		s.Assert(extra)
	}
	res := s.CheckSat()
	var vec []uint64
	if res == Sat {
		ts := make([]*Term, len(r.inputs))
		for i, in := range r.inputs {
			ts[i] = in.T
		}
		if vs, err := s.GetValues(ts); err == nil {
			vec = vs
		}
	}
	return res, vec
}

// check: cond must hold; if it can fail a finding is recorded and execution
// continues under cond.
func (r *Run) check(cond *Term, kind, label, detail string) {
	if cond.IsConst() {
		if cond.Val != 0 {
			return
		}
		r.fail(kind, label, detail)
	}
	if r.inPrefix() {
		r.assume(cond)
		return
	}
	r.flush()
	r.sol.Push()
	r.sol.Assert(r.ts.Not(cond))
	res := r.sol.CheckSat()
	if res == Sat {
		vec, _ := r.model()
		r.sol.Pop()
		r.addFinding(kind, label, detail, vec)
	} else {
		r.sol.Pop()
		if res == Unknown {
			switch res2, vec := r.secondOpinion(r.ts.Not(cond)); res2 {
			case Unsat:
				// the other solver proves the condition on this path
			case Sat:
				r.addFinding(kind, label, detail, vec)
			default:
				r.unknowns++
				r.addFinding("unknown", label, "both solvers returned unknown for "+kind+": "+detail, nil)
			}
		}
	}
	if r.feasible(cond) == Unsat {
		panic(pathEnd{kind + ": " + label})
	}
	r.assume(cond)
}

func (r *Run) freshVar(prefix string, w int) *Term {
	r.fresh++
	v := r.ts.Var(fmt.Sprintf("%s_%d", sanitize(prefix), r.fresh), w)
	r.allVars = append(r.allVars, v)
	if r.model_ != nil {
		r.model_.vals[v.Name] = 0
	}
	return v
}

func (r *Run) newInput(tag string, w int) *Term {
	name := fmt.Sprintf("in%d_%s", len(r.inputs), sanitize(tag))
	t := r.ts.Var(name, w)
	r.allVars = append(r.allVars, t)
	if r.model_ != nil {
		r.model_.vals[name] = 0
	}
	r.inputs = append(r.inputs, &InputVar{Name: name, Tag: tag, Width: w, T: t})
	return t
}

func sanitize(s string) string {
	var sb strings.Builder
	for _, c := range s {
		if c >= 'a' && c <= 'z' || c >= 'A' && c <= 'Z' || c >= '0' && c <= '9' || c == '_' {
			sb.WriteRune(c)
		} else {
			sb.WriteByte('_')
		}
	}
	return sb.String()
}
