package main

// Token-level contract model of github.com/go-json-experiment/json (C14).
//
// The library's tokenizer and reflection-driven (un)marshaller cannot be
// executed by the engine. What the repository hand-writes on top of it —
// Schema.MarshalJSONTo and Schema.UnmarshalJSONFrom — is executed for real
// against this model: a jsontext.Encoder is a token recorder, a
// jsontext.Decoder a token cursor, json.MarshalEncode / UnmarshalDecode walk
// Go values by the struct tags found in the CURRENT source (go/types), honour
// omitempty (v2 semantics: omitted if the value encodes as null, "", {} or
// []), ignore unknown members, reject duplicate names, and call back into the
// real MarshalJSONTo / UnmarshalJSONFrom for types that define them.

import (
	"fmt"
	"go/types"
	"reflect"
	"strings"

	"golang.org/x/tools/go/ssa"
)

const jsontextPath = "github.com/go-json-experiment/json/jsontext"
const jsonPath = "github.com/go-json-experiment/json"

type jsonTok struct {
	kind byte // { } [ ] " 0 t f n
	s    Str
	n    *Term
}

type jsonStream struct {
	toks []jsonTok
	pos  int
	self Ptr
}

func init() {
	intrinsicTable[jsontextPath+".String"] = inJSONString
	intrinsicTable[jsontextPath+".Int"] = inJSONInt
	intrinsicTable[jsontextPath+".Bool"] = inJSONBool
	intrinsicTable["("+jsontextPath+".Token).Kind"] = inJSONTokenKind
	intrinsicTable["("+jsontextPath+".Token).String"] = inJSONTokenString
	intrinsicTable["("+jsontextPath+".Token).Int"] = inJSONTokenInt
	intrinsicTable["(*"+jsontextPath+".Encoder).WriteToken"] = inJSONWriteToken
	intrinsicTable["(*"+jsontextPath+".Decoder).PeekKind"] = inJSONPeekKind
	intrinsicTable["(*"+jsontextPath+".Decoder).ReadToken"] = inJSONReadToken
	intrinsicTable[jsonPath+".MarshalEncode"] = inJSONMarshalEncode
	intrinsicTable[jsonPath+".UnmarshalDecode"] = inJSONUnmarshalDecode
}

func (r *Run) jsonMarker(kind byte) *Object {
	if r.jsonMarks == nil {
		r.jsonMarks = map[byte]*Object{}
	}
	if o, ok := r.jsonMarks[kind]; ok {
		return o
	}
	o := r.newRaw(8, KNative, "jsontok:"+string(kind))
	o.Native = kind
	o.Frozen = true
	o.Owned = true
	r.jsonMarks[kind] = o
	return o
}

func (r *Run) jsonTokenValue(t jsonTok) Value {
	tt := under(r.namedType(jsontextPath, "Token")).(*types.Struct)
	sv := &StructV{F: make([]Value, tt.NumFields())}
	for i := 0; i < tt.NumFields(); i++ {
		switch tt.Field(i).Name() {
		case "raw":
			sv.F[i] = Ptr{Obj: r.jsonMarker(t.kind)}
		case "str":
			sv.F[i] = t.s
		case "num":
			if t.n != nil {
				sv.F[i] = t.n
			} else {
				sv.F[i] = r.ts.Const(64, 0)
			}
		default:
			sv.F[i] = r.zeroValue(tt.Field(i).Type())
		}
	}
	return sv
}

func (r *Run) jsonTokOf(v Value) jsonTok {
	sv := v.(*StructV)
	tt := under(r.namedType(jsontextPath, "Token")).(*types.Struct)
	var t jsonTok
	for i := 0; i < tt.NumFields(); i++ {
		switch tt.Field(i).Name() {
		case "raw":
			p := r.asPtr(sv.F[i])
			if p.Obj == nil {
				r.fail("panic", "jsontext: use of an invalid (zero) Token", "")
			}
			k, ok := p.Obj.Native.(byte)
			if !ok {
				r.engineFail("jsontext.Token with foreign raw buffer")
			}
			t.kind = k
		case "str":
			t.s = sv.F[i].(Str)
		case "num":
			t.n = sv.F[i].(*Term)
		}
	}
	return t
}

// seedJSONGlobal gives the jsontext token variables their model values.
func (r *Run) seedJSONGlobal(name string, o *Object, t types.Type) bool {
	if !strings.HasPrefix(name, jsontextPath+".") {
		return false
	}
	kinds := map[string]byte{"BeginObject": '{', "EndObject": '}', "BeginArray": '[', "EndArray": ']', "Null": 'n', "True": 't', "False": 'f'}
	k, ok := kinds[strings.TrimPrefix(name, jsontextPath+".")]
	if !ok {
		return false
	}
	r.storeT(Ptr{Obj: o}, t, r.jsonTokenValue(jsonTok{kind: k}))
	return true
}

func inJSONString(r *Run, fn *ssa.Function, args []Value) Value {
	return r.jsonTokenValue(jsonTok{kind: '"', s: args[0].(Str)})
}
func inJSONInt(r *Run, fn *ssa.Function, args []Value) Value {
	return r.jsonTokenValue(jsonTok{kind: '0', n: args[0].(*Term)})
}
func inJSONBool(r *Run, fn *ssa.Function, args []Value) Value {
	if r.branch(args[0].(*Term)) {
		return r.jsonTokenValue(jsonTok{kind: 't'})
	}
	return r.jsonTokenValue(jsonTok{kind: 'f'})
}
func inJSONTokenKind(r *Run, fn *ssa.Function, args []Value) Value {
	return r.ts.Const(8, uint64(r.jsonTokOf(args[0]).kind))
}
func inJSONTokenString(r *Run, fn *ssa.Function, args []Value) Value {
	t := r.jsonTokOf(args[0])
	if t.kind == '"' {
		return t.s
	}
	return r.strLit("<token>")
}
func inJSONTokenInt(r *Run, fn *ssa.Function, args []Value) Value {
	t := r.jsonTokOf(args[0])
	if t.kind != '0' {
		r.fail("panic", "jsontext: Token.Int on a non-number", "")
	}
	return t.n
}

func (r *Run) jsonStreamOf(v Value, what string) *jsonStream {
	p := r.asPtr(v)
	if p.Obj == nil {
		r.fail("nil-deref", what+": nil", "")
	}
	st, ok := p.Obj.Native.(*jsonStream)
	if !ok {
		r.engineFail("%s: not a model encoder/decoder (real jsontext streams are not executable)", what)
	}
	return st
}

func (r *Run) newJSONStream(typeName string) (*jsonStream, Ptr) {
	t := r.namedType(jsontextPath, typeName)
	o := r.newObject(t, KNative, "json"+typeName)
	st := &jsonStream{self: Ptr{Obj: o}}
	o.Native = st
	return st, st.self
}

func (r *Run) newError(msg string) Iface {
	t := r.namedType("errors", "errorString")
	o := r.newObject(t, KHeap, "error")
	r.storeT(Ptr{Obj: o}, t, &StructV{F: []Value{r.strLit(msg)}})
	return Iface{T: r.eng.canon(types.NewPointer(t)), V: Ptr{Obj: o}}
}

func inJSONWriteToken(r *Run, fn *ssa.Function, args []Value) Value {
	st := r.jsonStreamOf(args[0], "Encoder.WriteToken")
	st.toks = append(st.toks, r.jsonTokOf(args[1]))
	return Iface{}
}

func inJSONPeekKind(r *Run, fn *ssa.Function, args []Value) Value {
	st := r.jsonStreamOf(args[0], "Decoder.PeekKind")
	if st.pos >= len(st.toks) {
		return r.ts.Const(8, 0)
	}
	return r.ts.Const(8, uint64(st.toks[st.pos].kind))
}

func inJSONReadToken(r *Run, fn *ssa.Function, args []Value) Value {
	st := r.jsonStreamOf(args[0], "Decoder.ReadToken")
	if st.pos >= len(st.toks) {
		return Tuple{r.zeroValue(r.namedType(jsontextPath, "Token")), r.errIface("io.EOF")}
	}
	t := st.toks[st.pos]
	st.pos++
	return Tuple{r.jsonTokenValue(t), Iface{}}
}

// errIface loads a seeded error sentinel by name.
func (r *Run) errIface(name string) Iface {
	parts := strings.Split(name, ".")
	p := r.eng.spkgs[parts[0]]
	if p == nil {
		return r.newError(name)
	}
	g, ok := p.Members[parts[1]].(*ssa.Global)
	if !ok {
		return r.newError(name)
	}
	o := r.globalObj(g)
	return r.loadT(Ptr{Obj: o}, g.Type().(*types.Pointer).Elem()).(Iface)
}

// ---------- marshal walker ----------

func jsonFieldName(st *types.Struct, i int) (name string, omitempty bool, skip bool) {
	f := st.Field(i)
	if !f.Exported() {
		return "", false, true
	}
	tag := reflect.StructTag(st.Tag(i)).Get("json")
	parts := strings.Split(tag, ",")
	name = parts[0]
	if name == "-" && len(parts) == 1 {
		return "", false, true
	}
	if name == "" {
		name = f.Name()
	}
	for _, o := range parts[1:] {
		if o == "omitempty" {
			omitempty = true
		}
	}
	return name, omitempty, false
}

func (r *Run) methodOnPtr(t types.Type, name string) *ssa.Function {
	pt := types.NewPointer(t)
	sel := r.eng.prog.MethodSets.MethodSet(pt).Lookup(nil, name)
	if sel == nil {
		return nil
	}
	return r.eng.prog.MethodValue(sel)
}

// jsonEncode appends the tokens of the value of type t at p. Returns a Go error (nil iface = ok).
func (r *Run) jsonEncode(st *jsonStream, t types.Type, p Ptr, depth int) Iface {
	if depth > 24 {
		r.engineFail("json model: nesting too deep")
	}
	if _, isPtr := under(t).(*types.Pointer); !isPtr {
		if m := r.methodOnPtr(t, "MarshalJSONTo"); m != nil {
			res := r.callFn(m, []Value{p, st.self}, nil, 0)
			return res.(Iface)
		}
	}
	switch u := under(t).(type) {
	case *types.Basic:
		switch {
		case u.Info()&types.IsString != 0:
			st.toks = append(st.toks, jsonTok{kind: '"', s: r.loadT(p, t).(Str)})
		case u.Info()&types.IsBoolean != 0:
			if r.branch(r.loadT(p, t).(*Term)) {
				st.toks = append(st.toks, jsonTok{kind: 't'})
			} else {
				st.toks = append(st.toks, jsonTok{kind: 'f'})
			}
		case u.Info()&types.IsInteger != 0:
			v := r.loadT(p, t).(*Term)
			if v.W < 64 {
				if u.Info()&types.IsUnsigned != 0 {
					v = r.ts.ZExt(v, 64)
				} else {
					v = r.ts.SExt(v, 64)
				}
			}
			st.toks = append(st.toks, jsonTok{kind: '0', n: v})
		default:
			r.engineFail("json model: marshal of %v", t)
		}
	case *types.Pointer:
		pv := r.asPtr(r.loadT(p, t))
		if pv.IsNil() {
			st.toks = append(st.toks, jsonTok{kind: 'n'})
			return Iface{}
		}
		return r.jsonEncode(st, u.Elem(), pv, depth+1)
	case *types.Slice:
		sv := r.loadT(p, t).(SliceV)
		st.toks = append(st.toks, jsonTok{kind: '['})
		esz := r.eng.sizes.Sizeof(u.Elem())
		for i := int64(0); i < sv.Len; i++ {
			if e := r.jsonEncode(st, u.Elem(), Ptr{Obj: sv.P.Obj, Off: sv.P.Off + i*esz}, depth+1); e.T != nil {
				return e
			}
		}
		st.toks = append(st.toks, jsonTok{kind: ']'})
	case *types.Struct:
		st.toks = append(st.toks, jsonTok{kind: '{'})
		offs := r.eng.fieldOffsets(u)
		for i := 0; i < u.NumFields(); i++ {
			name, omit, skip := jsonFieldName(u, i)
			if skip {
				continue
			}
			tmp := &jsonStream{self: st.self}
			// the member is encoded into a side stream first (omitempty looks at the encoded form)
			save := st.self.Obj.Native
			st.self.Obj.Native = tmp
			e := r.jsonEncode(tmp, u.Field(i).Type(), Ptr{Obj: p.Obj, Off: p.Off + offs[i]}, depth+1)
			st.self.Obj.Native = save
			if e.T != nil {
				return e
			}
			if omit && jsonIsEmpty(tmp.toks) {
				continue
			}
			st.toks = append(st.toks, jsonTok{kind: '"', s: r.strLit(name)})
			st.toks = append(st.toks, tmp.toks...)
		}
		st.toks = append(st.toks, jsonTok{kind: '}'})
	default:
		r.engineFail("json model: marshal of %v", t)
	}
	return Iface{}
}

// jsonIsEmpty: v2 omitempty — the value encoded as null, "", {} or [].
func jsonIsEmpty(toks []jsonTok) bool {
	switch len(toks) {
	case 1:
		return toks[0].kind == 'n' || toks[0].kind == '"' && toks[0].s.Len == 0
	case 2:
		return toks[0].kind == '{' && toks[1].kind == '}' || toks[0].kind == '[' && toks[1].kind == ']'
	}
	return false
}

func inJSONMarshalEncode(r *Run, fn *ssa.Function, args []Value) Value {
	st := r.jsonStreamOf(args[0], "json.MarshalEncode")
	in := args[1].(Iface)
	if in.T == nil {
		st.toks = append(st.toks, jsonTok{kind: 'n'})
		return Iface{}
	}
	// box the value so that it has an address
	var p Ptr
	t := in.T
	if pt, ok := under(t).(*types.Pointer); ok {
		p = r.asPtr(in.V)
		t = pt.Elem()
		if p.IsNil() {
			st.toks = append(st.toks, jsonTok{kind: 'n'})
			return Iface{}
		}
	} else {
		o := r.newObject(t, KHeap, "json.in")
		r.storeT(Ptr{Obj: o}, t, in.V)
		p = Ptr{Obj: o}
	}
	return r.jsonEncode(st, t, p, 0)
}

// ---------- unmarshal walker ----------

func (r *Run) jsonSkipValue(st *jsonStream) bool {
	if st.pos >= len(st.toks) {
		return false
	}
	depth := 0
	for st.pos < len(st.toks) {
		k := st.toks[st.pos].kind
		st.pos++
		switch k {
		case '{', '[':
			depth++
		case '}', ']':
			depth--
		}
		if depth == 0 {
			return true
		}
	}
	return false
}

func (r *Run) jsonDecode(st *jsonStream, t types.Type, p Ptr, depth int) Iface {
	if depth > 24 {
		r.engineFail("json model: nesting too deep")
	}
	if _, isPtr := under(t).(*types.Pointer); !isPtr {
		if m := r.methodOnPtr(t, "UnmarshalJSONFrom"); m != nil {
			return r.callFn(m, []Value{p, st.self}, nil, 0).(Iface)
		}
	}
	if st.pos >= len(st.toks) {
		return r.errIface("io.ErrUnexpectedEOF")
	}
	tok := st.toks[st.pos]
	if tok.kind == 'n' {
		st.pos++
		r.zeroMem(p, r.eng.sizes.Sizeof(t))
		return Iface{}
	}
	mismatch := func() Iface {
		return r.newError(fmt.Sprintf("json: cannot unmarshal JSON %c into Go %v", tok.kind, t))
	}
	switch u := under(t).(type) {
	case *types.Basic:
		switch {
		case u.Info()&types.IsString != 0:
			if tok.kind != '"' {
				return mismatch()
			}
			st.pos++
			r.storeT(p, t, tok.s)
		case u.Info()&types.IsBoolean != 0:
			if tok.kind != 't' && tok.kind != 'f' {
				return mismatch()
			}
			st.pos++
			r.storeT(p, t, r.ts.BoolConst(tok.kind == 't'))
		case u.Info()&types.IsInteger != 0:
			if tok.kind != '0' {
				return mismatch()
			}
			st.pos++
			w := bitWidth(r.eng.sizes, u)
			v := tok.n
			if w < 64 {
				// out-of-range numbers are an error
				back := r.ts.SExt(r.ts.Extract(v, w-1, 0), 64)
				if !r.branch(r.ts.Eq(back, v)) {
					return r.newError("json: number out of range")
				}
				v = r.ts.Extract(v, w-1, 0)
			}
			r.storeT(p, t, v)
		default:
			r.engineFail("json model: unmarshal into %v", t)
		}
	case *types.Pointer:
		o := r.newObject(u.Elem(), KHeap, "json.new")
		if e := r.jsonDecode(st, u.Elem(), Ptr{Obj: o}, depth+1); e.T != nil {
			return e
		}
		r.storeT(p, t, Ptr{Obj: o})
	case *types.Slice:
		if tok.kind != '[' {
			return mismatch()
		}
		st.pos++
		var elems []*Object
		for {
			if st.pos >= len(st.toks) {
				return r.errIface("io.ErrUnexpectedEOF")
			}
			if st.toks[st.pos].kind == ']' {
				st.pos++
				break
			}
			eo := r.newObject(u.Elem(), KHeap, "json.elem")
			if e := r.jsonDecode(st, u.Elem(), Ptr{Obj: eo}, depth+1); e.T != nil {
				return e
			}
			elems = append(elems, eo)
		}
		esz := r.eng.sizes.Sizeof(u.Elem())
		arr := r.newArrayObject(u.Elem(), int64(len(elems)), KHeap, "json.slice")
		for i, eo := range elems {
			r.copyMem(Ptr{Obj: arr, Off: int64(i) * esz}, Ptr{Obj: eo}, esz)
		}
		r.storeT(p, t, SliceV{P: Ptr{Obj: arr}, Len: int64(len(elems)), Cap: int64(len(elems))})
	case *types.Struct:
		if tok.kind != '{' {
			return mismatch()
		}
		st.pos++
		offs := r.eng.fieldOffsets(u)
		seen := map[string]bool{}
		for {
			if st.pos >= len(st.toks) {
				return r.errIface("io.ErrUnexpectedEOF")
			}
			k := st.toks[st.pos]
			if k.kind == '}' {
				st.pos++
				break
			}
			if k.kind != '"' {
				return r.newError("json: object member name must be a string")
			}
			st.pos++
			name := r.mustConcreteString(k.s, "json member name")
			if seen[name] {
				return r.newError("json: duplicate name " + name)
			}
			seen[name] = true
			idx := -1
			for i := 0; i < u.NumFields(); i++ {
				if n, _, skip := jsonFieldName(u, i); !skip && n == name {
					idx = i
				}
			}
			if idx < 0 {
				// unknown members are ignored
				if !r.jsonSkipValue(st) {
					return r.errIface("io.ErrUnexpectedEOF")
				}
				continue
			}
			if e := r.jsonDecode(st, u.Field(idx).Type(), Ptr{Obj: p.Obj, Off: p.Off + offs[idx]}, depth+1); e.T != nil {
				return e
			}
		}
	default:
		r.engineFail("json model: unmarshal into %v", t)
	}
	return Iface{}
}

func inJSONUnmarshalDecode(r *Run, fn *ssa.Function, args []Value) Value {
	st := r.jsonStreamOf(args[0], "json.UnmarshalDecode")
	out := args[1].(Iface)
	pt, ok := under(out.T).(*types.Pointer)
	if out.T == nil || !ok {
		return r.newError("json: Unmarshal(non-pointer)")
	}
	p := r.asPtr(out.V)
	if p.IsNil() {
		return r.newError("json: Unmarshal(nil)")
	}
	return r.jsonDecode(st, pt.Elem(), p, 0)
}

// ---------- harness API ----------

type jsonNode struct {
	tok     jsonTok
	keys    []jsonTok
	members []*jsonNode
	elems   []*jsonNode
}

func jsonParse(toks []jsonTok, pos *int) *jsonNode {
	if *pos >= len(toks) {
		return nil
	}
	t := toks[*pos]
	*pos++
	n := &jsonNode{tok: t}
	switch t.kind {
	case '{':
		for *pos < len(toks) && toks[*pos].kind != '}' {
			k := toks[*pos]
			*pos++
			v := jsonParse(toks, pos)
			if k.kind != '"' || v == nil {
				return nil
			}
			n.keys = append(n.keys, k)
			n.members = append(n.members, v)
		}
		if *pos >= len(toks) {
			return nil
		}
		*pos++
	case '[':
		for *pos < len(toks) && toks[*pos].kind != ']' {
			v := jsonParse(toks, pos)
			if v == nil {
				return nil
			}
			n.elems = append(n.elems, v)
		}
		if *pos >= len(toks) {
			return nil
		}
		*pos++
	case '}', ']':
		return nil
	}
	return n
}

// jsonWellFormed: one complete value; object members are name/value pairs with distinct names.
func (r *Run) jsonWellFormed(n *jsonNode) bool {
	if n == nil {
		return false
	}
	seen := map[string]bool{}
	for i, k := range n.keys {
		name, ok := r.concreteString(k.s)
		if ok {
			if seen[name] {
				return false
			}
			seen[name] = true
		}
		if !r.jsonWellFormed(n.members[i]) {
			return false
		}
	}
	for _, e := range n.elems {
		if !r.jsonWellFormed(e) {
			return false
		}
	}
	return true
}

func (r *Run) jsonEmit(n *jsonNode, variant int, out *[]jsonTok) {
	switch n.tok.kind {
	case '{':
		*out = append(*out, n.tok)
		if variant == 2 {
			// attributes the schema model does not know
			*out = append(*out, jsonTok{kind: '"', s: r.strLit("doc")}, jsonTok{kind: '"', s: r.strLit("x")})
			*out = append(*out, jsonTok{kind: '"', s: r.strLit("aliases")}, jsonTok{kind: '['}, jsonTok{kind: '"', s: r.strLit("a")}, jsonTok{kind: ']'})
		}
		idx := make([]int, len(n.keys))
		for i := range idx {
			idx[i] = i
			if variant == 1 {
				idx[i] = len(n.keys) - 1 - i
			}
		}
		for _, i := range idx {
			*out = append(*out, n.keys[i])
			r.jsonEmit(n.members[i], variant, out)
		}
		if variant == 2 {
			*out = append(*out, jsonTok{kind: '"', s: r.strLit("default")}, jsonTok{kind: '{'}, jsonTok{kind: '"', s: r.strLit("k")}, jsonTok{kind: '0', n: r.ts.Const(64, 1)}, jsonTok{kind: '}'})
		}
		*out = append(*out, jsonTok{kind: '}'})
	case '[':
		*out = append(*out, n.tok)
		for _, e := range n.elems {
			r.jsonEmit(e, variant, out)
		}
		*out = append(*out, jsonTok{kind: ']'})
	default:
		*out = append(*out, n.tok)
	}
}

func (r *Run) jsonAPI(name string, args []Value) (Value, bool) {
	switch name {
	case "verifJSONEncoder":
		_, p := r.newJSONStream("Encoder")
		return p, true
	case "verifJSONWellFormed":
		st := r.jsonStreamOf(args[0], "verifJSONWellFormed")
		pos := 0
		n := jsonParse(st.toks, &pos)
		return r.ts.BoolConst(n != nil && pos == len(st.toks) && r.jsonWellFormed(n)), true
	case "verifJSONDecoder":
		st := r.jsonStreamOf(args[0], "verifJSONDecoder")
		variant := int(r.concretizeSigned(args[1].(*Term), "verifJSONDecoder variant"))
		ds, p := r.newJSONStream("Decoder")
		pos := 0
		n := jsonParse(st.toks, &pos)
		if n == nil || pos != len(st.toks) {
			ds.toks = append([]jsonTok(nil), st.toks...)
		} else {
			r.jsonEmit(n, variant, &ds.toks)
		}
		return p, true
	case "verifJSONDone":
		st := r.jsonStreamOf(args[0], "verifJSONDone")
		return r.ts.BoolConst(st.pos == len(st.toks)), true
	}
	return nil, false
}
