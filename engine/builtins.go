package main

import (
	"fmt"
	"go/types"

	"golang.org/x/tools/go/ssa"
)

var sizeClasses = []int64{0, 8, 16, 24, 32, 48, 64, 80, 96, 112, 128, 144, 160, 176, 192, 208, 224, 240, 256,
	288, 320, 352, 384, 416, 448, 480, 512, 576, 640, 704, 768, 896, 1024, 1152, 1280, 1408, 1536, 1792, 2048}

func roundUpSize(n int64) int64 {
	for _, c := range sizeClasses {
		if c >= n {
			return c
		}
	}
	return (n + 1023) &^ 1023
}

// growCap mimics runtime.growslice closely enough for small slices.
func growCap(oldCap, needed, esz int64) int64 {
	newcap := oldCap
	doublecap := newcap + newcap
	if needed > doublecap {
		newcap = needed
	} else if oldCap < 256 {
		newcap = doublecap
	} else {
		for newcap < needed {
			newcap += (newcap + 3*256) / 4
		}
	}
	if esz <= 0 {
		return newcap
	}
	mem := roundUpSize(newcap * esz)
	return mem / esz
}

func (r *Run) builtin(b *ssa.Builtin, args []Value, c *ssa.CallCommon) Value {
	ts := r.ts
	switch b.Name() {
	case "len":
		switch a := args[0].(type) {
		case Str:
			return ts.Const(64, uint64(a.Len))
		case SliceV:
			return ts.Const(64, uint64(a.Len))
		case *ArrayV:
			return ts.Const(64, uint64(len(a.E)))
		case Ptr:
			switch u := under(c.Args[0].Type()).(type) {
			case *types.Map:
				if a.IsNil() {
					return ts.Const(64, 0)
				}
				return ts.Const(64, uint64(len(r.mapData(a).Entries)))
			case *types.Pointer:
				return ts.Const(64, uint64(under(u.Elem()).(*types.Array).Len()))
			}
		}
	case "cap":
		switch a := args[0].(type) {
		case SliceV:
			return ts.Const(64, uint64(a.Cap))
		case *ArrayV:
			return ts.Const(64, uint64(len(a.E)))
		case Ptr:
			if u, ok := under(c.Args[0].Type()).(*types.Pointer); ok {
				return ts.Const(64, uint64(under(u.Elem()).(*types.Array).Len()))
			}
		}
	case "append":
		s := args[0].(SliceV)
		st := under(c.Args[0].Type()).(*types.Slice)
		esz := r.eng.sizes.Sizeof(st.Elem())
		var src Ptr
		var n int64
		switch a := args[1].(type) {
		case SliceV:
			src, n = a.P, a.Len
		case Str:
			src, n = a.P, a.Len
		default:
			r.engineFail("append: second arg %T", args[1])
		}
		if n == 0 {
			return s
		}
		newLen := s.Len + n
		if newLen <= s.Cap {
			r.copyMem(Ptr{Obj: s.P.Obj, Off: s.P.Off + s.Len*esz}, src, n*esz)
			return SliceV{P: s.P, Len: newLen, Cap: s.Cap}
		}
		nc := growCap(s.Cap, newLen, esz)
		o := r.newArrayObject(st.Elem(), nc, KHeap, "append")
		np := Ptr{Obj: o}
		if s.Len > 0 {
			r.copyMem(np, s.P, s.Len*esz)
		}
		r.copyMem(Ptr{Obj: o, Off: s.Len * esz}, src, n*esz)
		return SliceV{P: np, Len: newLen, Cap: nc}
	case "copy":
		d := args[0].(SliceV)
		esz := r.eng.sizes.Sizeof(under(c.Args[0].Type()).(*types.Slice).Elem())
		var src Ptr
		var n int64
		switch a := args[1].(type) {
		case SliceV:
			src, n = a.P, a.Len
		case Str:
			src, n = a.P, a.Len
		}
		if d.Len < n {
			n = d.Len
		}
		if n > 0 {
			r.copyMem(d.P, src, n*esz)
		}
		return ts.Const(64, uint64(n))
	case "min", "max":
		acc := args[0].(*Term)
		signed := !isUnsigned(c.Args[0].Type())
		if isFloat(c.Args[0].Type()) {
			r.engineFail("float min/max")
		}
		for _, a := range args[1:] {
			b2 := a.(*Term)
			var less *Term
			if signed {
				less = ts.SLT(b2, acc)
			} else {
				less = ts.ULT(b2, acc)
			}
			if b.Name() == "max" {
				less = ts.Not(ts.Or(less, ts.Eq(b2, acc)))
			}
			acc = ts.Ite(less, b2, acc)
		}
		return acc
	case "delete":
		m := r.asPtr(args[0])
		if !m.IsNil() {
			r.mapDelete(m, args[1])
		}
		return Tuple{}
	case "clear":
		switch a := args[0].(type) {
		case Ptr:
			if !a.IsNil() {
				md := r.mapData(a)
				md.Entries = nil
				r.syncMapCount(a.Obj)
			}
		case SliceV:
			esz := r.eng.sizes.Sizeof(under(c.Args[0].Type()).(*types.Slice).Elem())
			r.zeroMem(a.P, a.Len*esz)
		}
		return Tuple{}
	case "recover":
		return Iface{}
	case "print", "println":
		return Tuple{}
	case "ssa:wrapnilchk":
		p := r.asPtr(args[0])
		if p.IsNil() {
			r.fail("nil-deref", "value method called via nil pointer", "")
		}
		return p
	case "Add":
		p := r.asPtr(args[0])
		d := r.concretizeSigned(r.indexTerm(args[1]), "unsafe.Add")
		if p.IsNil() {
			if d == 0 {
				return p
			}
			return Ptr{Bad: ts.Const(64, uint64(d))}
		}
		return Ptr{Obj: p.Obj, Off: p.Off + d, Bad: p.Bad}
	case "Slice":
		p := r.asPtr(args[0])
		n := r.allocLenNoBound(r.indexTerm(args[1]), "unsafe.Slice")
		if p.IsNil() && n > 0 {
			r.fail("panic", "unsafe.Slice: ptr is nil and len is not zero", "")
		}
		return SliceV{P: p, Len: n, Cap: n}
	case "String":
		p := r.asPtr(args[0])
		n := r.allocLenNoBound(r.indexTerm(args[1]), "unsafe.String")
		if n == 0 {
			return Str{}
		}
		return Str{P: p, Len: n}
	case "StringData":
		return args[0].(Str).P
	case "SliceData":
		return args[0].(SliceV).P
	case "Sizeof":
		return ts.Const(64, uint64(r.eng.sizes.Sizeof(c.Args[0].Type())))
	case "Alignof":
		return ts.Const(64, uint64(r.eng.sizes.Alignof(c.Args[0].Type())))
	}
	r.engineFail("unsupported builtin %s(%T...)", b.Name(), args[0])
	return nil
}

func (r *Run) allocLenNoBound(t *Term, what string) int64 {
	r.check(r.ts.SLE(r.ts.Const(64, 0), t), "panic", what+": negative length", "")
	return r.concretizeSigned(t, what)
}

// ---------- maps ----------

var hmapType = func() types.Type {
	f := func(n string, t types.Type) *types.Var { return types.NewField(0, nil, n, t, false) }
	return types.NewStruct([]*types.Var{
		f("used", types.Typ[types.Uint64]),
		f("seed", types.Typ[types.Uintptr]),
		f("dirPtr", types.Typ[types.UnsafePointer]),
		f("dirLen", types.Typ[types.Int]),
		f("globalDepth", types.Typ[types.Uint8]),
		f("globalShift", types.Typ[types.Uint8]),
		f("writing", types.Typ[types.Uint8]),
		f("clearSeq", types.Typ[types.Uint64]),
	}, nil)
}()

func (r *Run) newMap(mt *types.Map) *Object {
	o := r.newObject(hmapType, KHMap, "hmap")
	o.Map = &MapData{T: mt}
	return o
}

func (r *Run) mapData(m Ptr) *MapData {
	if m.Obj == nil || m.Obj.Kind != KHMap || m.Off != 0 {
		r.fail("bad-pointer", "map operation on a pointer that is not a map header", m.String())
	}
	return m.Obj.Map
}

func (r *Run) syncMapCount(o *Object) {
	bs := r.ts.ToBytes(r.ts.Const(64, uint64(len(o.Map.Entries))))
	copy(o.B[0:8], bs)
}

func (r *Run) mapLookup(m Ptr, key Value, mt *types.Map) (Value, bool) {
	if m.IsNil() {
		return r.zeroValue(mt.Elem()), false
	}
	md := r.mapData(m)
	r.monitorMapRead(m.Obj)
	for _, e := range md.Entries {
		if r.branch(r.valueEq(key, e.Key, md.T.Key())) {
			return r.loadT(Ptr{Obj: e.Elem}, md.T.Elem()), true
		}
	}
	return r.zeroValue(mt.Elem()), false
}

func (r *Run) mapFind(md *MapData, key Value) *MapEntry {
	for _, e := range md.Entries {
		if r.branch(r.valueEq(key, e.Key, md.T.Key())) {
			return e
		}
	}
	return nil
}

// mapAssign stores val (a register value) under key.
func (r *Run) mapAssign(m Ptr, key Value, val Value, isValue bool) {
	if m.IsNil() {
		r.fail("panic", "assignment to entry in nil map", "")
	}
	md := r.mapData(m)
	r.checkAccess(Ptr{Obj: m.Obj}, 8, true)
	e := r.mapFind(md, key)
	if e == nil {
		e = &MapEntry{Key: r.cloneKey(key), Elem: r.newObject(md.T.Elem(), KHeap, "mapelem")}
		md.Entries = append(md.Entries, e)
		r.syncMapCount(m.Obj)
	}
	if e.Elem.Size > 0 || true {
		r.storeT(Ptr{Obj: e.Elem}, md.T.Elem(), val)
	}
}

// mapAssignFromMem implements runtime mapassign(key *K, val *V).
func (r *Run) mapAssignFromMem(m Ptr, kp, vp Ptr) {
	if m.IsNil() {
		r.fail("panic", "assignment to entry in nil map", "")
	}
	md := r.mapData(m)
	key := r.loadT(kp, md.T.Key())
	e := r.mapFind(md, key)
	if e == nil {
		e = &MapEntry{Key: r.cloneKey(key), Elem: r.newObject(md.T.Elem(), KHeap, "mapelem")}
		md.Entries = append(md.Entries, e)
		r.syncMapCount(m.Obj)
	}
	sz := r.eng.sizes.Sizeof(md.T.Elem())
	if sz > 0 {
		// typedmemmove(elemType, dst, src)
		r.copyMem(Ptr{Obj: e.Elem}, vp, sz)
	}
}

// cloneKey: strings used as keys are retained by reference in Go as well, so
// no copy is needed; kept as a hook.
func (r *Run) cloneKey(k Value) Value { return k }

func (r *Run) mapDelete(m Ptr, key Value) {
	md := r.mapData(m)
	for i, e := range md.Entries {
		if r.branch(r.valueEq(key, e.Key, md.T.Key())) {
			md.Entries = append(md.Entries[:i:i], md.Entries[i+1:]...)
			r.syncMapCount(m.Obj)
			return
		}
	}
}

// mapOrder picks an iteration order; all permutations for small maps.
func (r *Run) mapOrder(o *Object) []*MapEntry {
	es := o.Map.Entries
	n := len(es)
	if n <= 1 {
		return append([]*MapEntry(nil), es...)
	}
	if n > 3 {
		return append([]*MapEntry(nil), es...)
	}
	perms := permutations(n)
	k := r.decide(len(perms), nil)
	out := make([]*MapEntry, n)
	for i, j := range perms[k] {
		out[i] = es[j]
	}
	return out
}

func permutations(n int) [][]int {
	if n == 1 {
		return [][]int{{0}}
	}
	var out [][]int
	for _, p := range permutations(n - 1) {
		for pos := 0; pos <= len(p); pos++ {
			q := make([]int, 0, n)
			q = append(q, p[:pos]...)
			q = append(q, n-1)
			q = append(q, p[pos:]...)
			out = append(out, q)
		}
	}
	return out
}

var _ = fmt.Sprintf
