package main

// SSA interpreter: concrete control, symbolic data.

import (
	"fmt"
	"go/constant"
	"go/token"
	"go/types"
	"math"

	"golang.org/x/tools/go/ssa"
)

const maxSteps = 4_000_000

func (r *Run) get(v ssa.Value) Value {
	switch x := v.(type) {
	case *ssa.Const:
		return r.constValue(x)
	case *ssa.Global:
		return Ptr{Obj: r.globalObj(x)}
	case *ssa.Function:
		return &FuncV{Fn: x}
	case *ssa.Builtin:
		r.engineFail("builtin %s used as value", x.Name())
	}
	i, ok := r.frame.info.idx[v]
	if !ok {
		r.engineFail("unknown SSA value %s (%T)", v.Name(), v)
	}
	val := r.frame.env[i]
	if val == nil {
		// nil interface{} is a legitimate Go value of our Value type only for
		// FuncV; everything else is an interpreter bug.
		if _, isSig := under(v.Type()).(*types.Signature); isSig {
			return (*FuncV)(nil)
		}
		r.engineFail("SSA value %s read before definition", v.Name())
	}
	return val
}

func (r *Run) set(v ssa.Value, val Value) {
	r.frame.env[r.frame.info.idx[v]] = val
}

func (r *Run) constValue(c *ssa.Const) Value {
	t := c.Type()
	if c.Value == nil {
		if _, ok := t.(*types.TypeParam); ok {
			r.engineFail("const of type parameter")
		}
		return r.zeroValue(t)
	}
	switch u := under(t).(type) {
	case *types.Basic:
		switch {
		case u.Info()&types.IsBoolean != 0:
			return r.ts.BoolConst(constant.BoolVal(c.Value))
		case u.Info()&types.IsString != 0:
			return r.strLit(constant.StringVal(c.Value))
		case u.Info()&types.IsInteger != 0:
			w := bitWidth(r.eng.sizes, u)
			if u.Kind() == types.UntypedInt || u.Kind() == types.UntypedRune {
				w = 64
			}
			if i, ok := constant.Int64Val(constant.ToInt(c.Value)); ok {
				return r.ts.Const(w, uint64(i))
			}
			if ui, ok := constant.Uint64Val(constant.ToInt(c.Value)); ok {
				return r.ts.Const(w, ui)
			}
			r.engineFail("integer constant out of range: %v", c.Value)
		case u.Info()&types.IsFloat != 0:
			f, _ := constant.Float64Val(c.Value)
			if u.Kind() == types.Float32 {
				return r.ts.Const(32, uint64(math.Float32bits(float32(f))))
			}
			return r.ts.Const(64, math.Float64bits(f))
		}
	}
	r.engineFail("unsupported constant %v of type %v", c.Value, t)
	return nil
}

func (r *Run) globalObj(g *ssa.Global) *Object {
	if o, ok := r.globals[g]; ok {
		return o
	}
	t := g.Type().(*types.Pointer).Elem()
	o := r.newObject(t, KGlobal, g.RelString(nil))
	o.Owned = false
	o.Global = g
	r.globals[g] = o
	// seeding models the package's own initialisation, not a store by the
	// operation under test
	mon := r.monitor
	r.monitor = false
	r.seedGlobal(g, o)
	r.monitor = mon
	return o
}

// callValue calls a function value.
func (r *Run) callValue(fv *FuncV, args []Value, pos token.Pos) Value {
	if fv == nil || fv.Fn == nil {
		r.fail("nil-deref", "call of nil function value", "")
	}
	return r.callFn(fv.Fn, args, fv.Bind, pos)
}

func (r *Run) callFn(fn *ssa.Function, args []Value, bind []Value, pos token.Pos) Value {
	if res, ok := r.intrinsic(fn, args); ok {
		return res
	}
	if fn.Synthetic == "package initializer" && !r.eng.repoPkgs[fn.Pkg] && !r.initOK[fn.Pkg] {
		return Tuple{}
	}
	if fn.Blocks == nil {
		r.engineFail("no body for %s", fn.String())
	}
	if fn.Pkg != nil && r.eng.repoPkgs[fn.Pkg] && !r.eng.isHarnessFn(fn) {
		r.fnSeen[fn.String()] = true
	}
	if r.depth >= r.maxDepth {
		r.fail("recursion-depth", fmt.Sprintf("call depth exceeds %d", r.maxDepth), fn.String())
	}
	info := r.eng.info(fn)
	fr := &Frame{fn: fn, info: info, env: make([]Value, info.n), visits: map[int]int{}, caller: r.frame, lastPos: fn.Pos()}
	if len(args) != len(fn.Params) {
		r.engineFail("call %s: %d args for %d params", fn.String(), len(args), len(fn.Params))
	}
	for i, p := range fn.Params {
		fr.env[info.idx[p]] = args[i]
	}
	for i, fvv := range fn.FreeVars {
		fr.env[info.idx[fvv]] = bind[i]
	}
	r.frame = fr
	r.depth++
	res := r.execFrame(fr)
	r.depth--
	r.frame = fr.caller
	return res
}

func (r *Run) execFrame(fr *Frame) Value {
	fn := fr.fn
	blk := fn.Blocks[0]
	var prev *ssa.BasicBlock
	for {
		fr.visits[blk.Index]++
		if fr.visits[blk.Index] > r.unwind {
			r.fail("unwind", fmt.Sprintf("loop bound %d exceeded", r.unwind), fmt.Sprintf("%s block %d", fn.String(), blk.Index))
		}
		// phis first, simultaneously
		nphi := 0
		for _, in := range blk.Instrs {
			if _, ok := in.(*ssa.Phi); ok {
				nphi++
			} else {
				break
			}
		}
		if nphi > 0 {
			pi := -1
			for i, p := range blk.Preds {
				if p == prev {
					pi = i
					break
				}
			}
			if pi < 0 {
				r.engineFail("phi: predecessor not found")
			}
			vals := make([]Value, nphi)
			for i := 0; i < nphi; i++ {
				vals[i] = r.get(blk.Instrs[i].(*ssa.Phi).Edges[pi])
			}
			for i := 0; i < nphi; i++ {
				r.set(blk.Instrs[i].(*ssa.Phi), vals[i])
			}
		}
		var next *ssa.BasicBlock
		for _, in := range blk.Instrs[nphi:] {
			r.steps++
			if r.steps > maxSteps {
				r.fail("unwind", "step budget exceeded", fn.String())
			}
			if p := in.Pos(); p.IsValid() {
				fr.lastPos = p
			}
			switch i := in.(type) {
			case *ssa.If:
				c := r.get(i.Cond).(*Term)
				if r.branch(c) {
					next = blk.Succs[0]
				} else {
					next = blk.Succs[1]
				}
			case *ssa.Jump:
				next = blk.Succs[0]
			case *ssa.Return:
				var res Value
				switch len(i.Results) {
				case 0:
				case 1:
					res = r.get(i.Results[0])
				default:
					tv := make(Tuple, len(i.Results))
					for k, rv := range i.Results {
						tv[k] = r.get(rv)
					}
					res = tv
				}
				r.runDefers(fr)
				return res
			case *ssa.Panic:
				v := r.get(i.X)
				msg := "panic"
				if iv, ok := v.(Iface); ok {
					if s, ok := iv.V.(Str); ok {
						if cs, ok := r.concreteString(s); ok {
							msg = cs
						}
					}
				}
				r.fail("panic", msg, "explicit panic")
			case *ssa.RunDefers:
				r.runDefers(fr)
			default:
				r.exec(in)
			}
		}
		if next == nil {
			r.engineFail("block %d of %s fell through", blk.Index, fn.String())
		}
		prev = blk
		blk = next
	}
}

func (r *Run) runDefers(fr *Frame) {
	for len(fr.defers) > 0 {
		d := fr.defers[len(fr.defers)-1]
		fr.defers = fr.defers[:len(fr.defers)-1]
		d()
	}
}

func (r *Run) exec(in ssa.Instruction) {
	switch i := in.(type) {
	case *ssa.DebugRef:
	case *ssa.Alloc:
		t := i.Type().(*types.Pointer).Elem()
		kind := KStack
		if i.Heap {
			kind = KHeap
		}
		o := r.newObject(t, kind, i.Comment)
		r.set(i, Ptr{Obj: o})
	case *ssa.BinOp:
		r.set(i, r.binop(i.Op, r.get(i.X), r.get(i.Y), i.X.Type(), i.Y.Type()))
	case *ssa.UnOp:
		r.set(i, r.unop(i))
	case *ssa.Call:
		res := r.doCall(&i.Call, i.Pos())
		if res == nil {
			if i.Type() != nil {
				if tup, ok := i.Type().(*types.Tuple); !ok || tup.Len() > 0 {
					if _, isSig := under(i.Type()).(*types.Signature); !isSig {
						r.engineFail("call %s returned nothing for type %v", i.Call.String(), i.Type())
					}
				}
			}
			res = Tuple{}
		}
		r.set(i, res)
	case *ssa.Defer:
		call := i.Call
		var fv *FuncV
		var args []Value
		var recv Value
		if call.IsInvoke() {
			recv = r.get(call.Value)
		} else if _, isB := call.Value.(*ssa.Builtin); !isB {
			switch f := r.get(call.Value).(type) {
			case *FuncV:
				fv = f
			}
		}
		for _, a := range call.Args {
			args = append(args, r.get(a))
		}
		fr := r.frame
		cc := call
		pos := i.Pos()
		fr.defers = append(fr.defers, func() {
			if cc.IsInvoke() {
				r.invoke(recv.(Iface), cc.Method, args, pos)
			} else if b, isB := cc.Value.(*ssa.Builtin); isB {
				r.builtin(b, args, &cc)
			} else {
				r.callValue(fv, args, pos)
			}
		})
	case *ssa.ChangeInterface:
		r.set(i, r.get(i.X))
	case *ssa.ChangeType:
		r.set(i, r.get(i.X))
	case *ssa.Convert:
		r.set(i, r.convert(r.get(i.X), i.X.Type(), i.Type()))
	case *ssa.MultiConvert:
		r.set(i, r.convert(r.get(i.X), i.X.Type(), i.Type()))
	case *ssa.Extract:
		r.set(i, r.get(i.Tuple).(Tuple)[i.Index])
	case *ssa.Field:
		r.set(i, r.get(i.X).(*StructV).F[i.Field])
	case *ssa.FieldAddr:
		p := r.asPtr(r.get(i.X))
		st := under(i.X.Type().(*types.Pointer).Elem()).(*types.Struct)
		off := r.eng.fieldOffsets(st)[i.Field]
		if p.IsNil() {
			r.fail("nil-deref", "field address of nil pointer", "")
		}
		r.set(i, Ptr{Obj: p.Obj, Off: p.Off + off, Bad: p.Bad})
	case *ssa.Index:
		r.set(i, r.index(i))
	case *ssa.IndexAddr:
		r.set(i, r.indexAddr(i))
	case *ssa.Lookup:
		r.set(i, r.lookup(i))
	case *ssa.MakeClosure:
		fn := i.Fn.(*ssa.Function)
		b := make([]Value, len(i.Bindings))
		for k, bv := range i.Bindings {
			b[k] = r.get(bv)
		}
		r.set(i, &FuncV{Fn: fn, Bind: b})
	case *ssa.MakeInterface:
		r.set(i, Iface{T: r.eng.canon(i.X.Type()), V: r.get(i.X)})
	case *ssa.MakeMap:
		mt := under(i.Type()).(*types.Map)
		if i.Reserve != nil {
			// make(map, hint) allocates buckets for hint entries up front (a
			// negative or impossible hint is ignored by the runtime)
			if h, ok := r.get(i.Reserve).(*Term); ok && !h.IsConst() {
				if h.W < 64 {
					h = r.ts.SExt(h, 64)
				}
				r.check(r.ts.SLE(h, r.ts.Const(64, uint64(r.allocMax))), "alloc", "make map hint: input-controlled allocation larger than bound", fmt.Sprintf("bound=%d", r.allocMax))
			}
		}
		r.set(i, Ptr{Obj: r.newMap(mt)})
	case *ssa.MakeSlice:
		st := under(i.Type()).(*types.Slice)
		ln := r.allocLen(r.get(i.Len).(*Term), "make slice len")
		cp := ln
		if i.Cap != nil {
			cp = r.allocLen(r.get(i.Cap).(*Term), "make slice cap")
			if cp < ln {
				r.fail("panic", "makeslice: cap out of range", "")
			}
		}
		o := r.newArrayObject(st.Elem(), cp, KHeap, "makeslice")
		r.set(i, SliceV{P: Ptr{Obj: o}, Len: ln, Cap: cp})
	case *ssa.MapUpdate:
		m := r.asPtr(r.get(i.Map))
		r.mapAssign(m, r.get(i.Key), r.get(i.Value), true)
	case *ssa.Range:
		r.set(i, r.rangeInit(i))
	case *ssa.Next:
		r.set(i, r.rangeNext(i))
	case *ssa.Slice:
		r.set(i, r.slice(i))
	case *ssa.SliceToArrayPointer:
		s := r.get(i.X).(SliceV)
		at := under(i.Type().(*types.Pointer).Elem()).(*types.Array)
		if s.Len < at.Len() {
			r.fail("panic", "slice to array pointer: length too short", "")
		}
		r.set(i, s.P)
	case *ssa.Store:
		p := r.asPtr(r.get(i.Addr))
		r.storeT(p, i.Val.Type(), r.get(i.Val))
	case *ssa.TypeAssert:
		r.set(i, r.typeAssert(i))
	case *ssa.Go, *ssa.Select, *ssa.Send, *ssa.MakeChan:
		r.engineFail("unsupported instruction %T", in)
	default:
		r.engineFail("unsupported instruction %T", in)
	}
}

// allocLen validates a length used for an allocation.
func (r *Run) allocLen(t *Term, what string) int64 {
	if t.W < 64 {
		t = r.ts.SExt(t, 64)
	}
	if t.IsConst() {
		// a constant-size allocation is O(1) whatever the input
		n := signExt(t.Val, 64)
		if n < 0 {
			r.fail("panic", what+": negative length", "")
		}
		return n
	}
	r.check(r.ts.SLE(r.ts.Const(64, 0), t), "panic", what+": negative length", "")
	r.check(r.ts.SLE(t, r.ts.Const(64, uint64(r.allocMax))), "alloc", what+": input-controlled allocation larger than bound", fmt.Sprintf("bound=%d", r.allocMax))
	return r.concretizeSigned(t, what)
}

func (r *Run) doCall(c *ssa.CallCommon, pos token.Pos) Value {
	args := make([]Value, 0, len(c.Args)+1)
	if c.IsInvoke() {
		recv := r.get(c.Value).(Iface)
		for _, a := range c.Args {
			args = append(args, r.get(a))
		}
		return r.invoke(recv, c.Method, args, pos)
	}
	for _, a := range c.Args {
		args = append(args, r.get(a))
	}
	switch f := c.Value.(type) {
	case *ssa.Builtin:
		return r.builtin(f, args, c)
	case *ssa.Function:
		return r.callFn(f, args, nil, pos)
	}
	fv, ok := r.get(c.Value).(*FuncV)
	if !ok {
		r.engineFail("call of non-function %T", r.get(c.Value))
	}
	return r.callValue(fv, args, pos)
}

func (r *Run) invoke(recv Iface, m *types.Func, args []Value, pos token.Pos) Value {
	if recv.T == nil {
		r.fail("nil-deref", "method call on nil interface: "+m.Name(), "")
	}
	if res, ok := r.invokeIntrinsic(recv, m, args); ok {
		return res
	}
	fn := r.eng.prog.LookupMethod(recv.T, m.Pkg(), m.Name())
	if fn == nil {
		r.engineFail("no method %s on %v", m.Name(), recv.T)
	}
	all := append([]Value{recv.V}, args...)
	return r.callFn(fn, all, nil, pos)
}

// ---------- operators ----------

func (r *Run) unop(i *ssa.UnOp) Value {
	x := r.get(i.X)
	switch i.Op {
	case token.MUL:
		p := r.asPtr(x)
		return r.loadT(p, i.Type())
	case token.SUB:
		t := x.(*Term)
		if isFloat(i.Type()) {
			// flip sign bit
			return r.ts.BXor(t, r.ts.Const(t.W, uint64(1)<<uint(t.W-1)))
		}
		return r.ts.Neg(t)
	case token.NOT:
		return r.ts.Not(x.(*Term))
	case token.XOR:
		return r.ts.BNot(x.(*Term))
	}
	r.engineFail("unsupported unary op %v", i.Op)
	return nil
}

func (r *Run) toTerm(v Value) (*Term, bool) {
	t, ok := v.(*Term)
	return t, ok
}

func (r *Run) binop(op token.Token, x, y Value, xt, yt types.Type) Value {
	ts := r.ts
	// uintptr arithmetic with provenance
	if up, ok := x.(UPtr); ok {
		switch op {
		case token.ADD, token.SUB:
			if yt2, ok := y.(*Term); ok {
				d := r.concretizeSigned(yt2, "pointer arithmetic")
				if op == token.SUB {
					d = -d
				}
				if up.P.IsNil() {
					return ts.Const(64, uint64(d))
				}
				return UPtr{Ptr{Obj: up.P.Obj, Off: up.P.Off + d}}
			}
			if yp, ok := y.(UPtr); ok && op == token.SUB && yp.P.Obj == up.P.Obj {
				return ts.Const(64, uint64(up.P.Off-yp.P.Off))
			}
		case token.XOR, token.OR:
			// internal/abi.NoEscape and friends: x ^ 0
			if yy, ok := y.(*Term); ok && yy.IsConst() && yy.Val == 0 {
				return up
			}
		case token.EQL, token.NEQ:
			res := false
			switch yy := y.(type) {
			case UPtr:
				res = yy.P == up.P
			case *Term:
				if yy.IsConst() && yy.Val == 0 {
					res = up.P.IsNil()
				} else {
					r.engineFail("comparison of pointer-derived uintptr with integer")
				}
			}
			if op == token.NEQ {
				res = !res
			}
			return ts.BoolConst(res)
		}
		r.engineFail("unsupported uintptr op %v on pointer-derived value", op)
	}
	if yp, ok := y.(UPtr); ok {
		if op == token.ADD {
			return r.binop(op, yp, x, yt, xt)
		}
		if op == token.EQL || op == token.NEQ {
			return r.binop(op, yp, x, yt, xt)
		}
		r.engineFail("unsupported uintptr op %v (rhs pointer-derived)", op)
	}

	switch a := x.(type) {
	case *Term:
		b, ok := y.(*Term)
		if !ok {
			r.engineFail("binop %v: %T vs %T", op, x, y)
		}
		if a.W == 0 {
			switch op {
			case token.EQL:
				return ts.Eq(a, b)
			case token.NEQ:
				return ts.Ne(a, b)
			case token.AND, token.LAND:
				return ts.And(a, b)
			case token.OR, token.LOR:
				return ts.Or(a, b)
			}
			r.engineFail("bool binop %v", op)
		}
		if isFloat(xt) {
			return r.floatBinop(op, a, b)
		}
		signed := !isUnsigned(xt)
		switch op {
		case token.SHL, token.SHR:
			cnt := b
			if !isUnsigned(yt) {
				r.check(ts.SLE(ts.Const(b.W, 0), b), "panic", "negative shift amount", "")
			}
			// bring count to a's width, saturating
			var c2 *Term
			if cnt.W > a.W {
				tooBig := ts.ULE(ts.Const(cnt.W, uint64(a.W)), cnt)
				c2 = ts.Ite(tooBig, ts.Const(a.W, uint64(a.W)), ts.Extract(cnt, a.W-1, 0))
			} else {
				c2 = ts.ZExt(cnt, a.W)
			}
			if op == token.SHL {
				return ts.Shl(a, c2)
			}
			if signed {
				return ts.AShr(a, c2)
			}
			return ts.LShr(a, c2)
		}
		if a.W != b.W {
			r.engineFail("binop %v: width %d vs %d", op, a.W, b.W)
		}
		switch op {
		case token.ADD:
			return ts.Add(a, b)
		case token.SUB:
			return ts.Sub(a, b)
		case token.MUL:
			return ts.Mul(a, b)
		case token.QUO:
			r.check(ts.Ne(b, ts.Const(b.W, 0)), "panic", "integer divide by zero", "")
			if signed {
				return ts.SDiv(a, b)
			}
			return ts.UDiv(a, b)
		case token.REM:
			r.check(ts.Ne(b, ts.Const(b.W, 0)), "panic", "integer divide by zero", "")
			if signed {
				return ts.SRem(a, b)
			}
			return ts.URem(a, b)
		case token.AND:
			return ts.BAnd(a, b)
		case token.OR:
			return ts.BOr(a, b)
		case token.XOR:
			return ts.BXor(a, b)
		case token.AND_NOT:
			return ts.BAnd(a, ts.BNot(b))
		case token.EQL:
			return ts.Eq(a, b)
		case token.NEQ:
			return ts.Ne(a, b)
		case token.LSS:
			if signed {
				return ts.SLT(a, b)
			}
			return ts.ULT(a, b)
		case token.LEQ:
			if signed {
				return ts.SLE(a, b)
			}
			return ts.ULE(a, b)
		case token.GTR:
			if signed {
				return ts.SLT(b, a)
			}
			return ts.ULT(b, a)
		case token.GEQ:
			if signed {
				return ts.SLE(b, a)
			}
			return ts.ULE(b, a)
		}
		r.engineFail("unsupported integer op %v", op)
	case Str:
		b := y.(Str)
		switch op {
		case token.ADD:
			return r.strConcat(a, b)
		case token.EQL:
			return r.strEq(a, b)
		case token.NEQ:
			return ts.Not(r.strEq(a, b))
		}
		r.engineFail("unsupported string op %v", op)
	default:
		switch op {
		case token.EQL:
			return r.valueEq(x, y, xt)
		case token.NEQ:
			return ts.Not(r.valueEq(x, y, xt))
		}
	}
	r.engineFail("unsupported binop %v on %T", op, x)
	return nil
}

func (r *Run) strEq(a, b Str) *Term {
	if a.Len != b.Len {
		return r.ts.False
	}
	if a.Len == 0 {
		return r.ts.True
	}
	ab := r.regionBytes(a.P, a.Len)
	bb := r.regionBytes(b.P, b.Len)
	acc := r.ts.True
	for i := range ab {
		acc = r.ts.And(acc, r.ts.Eq(ab[i], bb[i]))
	}
	return acc
}

func (r *Run) strConcat(a, b Str) Str {
	if a.Len == 0 {
		return b
	}
	if b.Len == 0 {
		return a
	}
	o := r.newRaw(a.Len+b.Len, KHeap, "strcat")
	copy(o.B, r.regionBytes(a.P, a.Len))
	copy(o.B[a.Len:], r.regionBytes(b.P, b.Len))
	o.Frozen = true
	return Str{P: Ptr{Obj: o}, Len: a.Len + b.Len}
}

// valueEq implements == for comparable non-basic values.
func (r *Run) valueEq(x, y Value, t types.Type) *Term {
	ts := r.ts
	switch a := x.(type) {
	case *Term:
		return ts.Eq(a, y.(*Term))
	case Str:
		return r.strEq(a, y.(Str))
	case Ptr:
		b := r.asPtr(y)
		if a.Bad != nil || b.Bad != nil {
			r.engineFail("comparison of invalid pointers")
		}
		return ts.BoolConst(a.Obj == b.Obj && (a.Obj == nil || a.Off == b.Off))
	case UPtr:
		return r.valueEq(a.P, y, t)
	case *FuncV:
		b, _ := y.(*FuncV)
		if a == nil || b == nil {
			return ts.BoolConst(a == nil && b == nil)
		}
		r.engineFail("comparison of non-nil funcs")
	case Iface:
		b := y.(Iface)
		if a.T == nil || b.T == nil {
			return ts.BoolConst(a.T == nil && b.T == nil)
		}
		if !types.Identical(a.T, b.T) {
			return ts.False
		}
		return r.valueEq(a.V, b.V, a.T)
	case *StructV:
		b := y.(*StructV)
		st := under(t).(*types.Struct)
		acc := ts.True
		for i := range a.F {
			acc = ts.And(acc, r.valueEq(a.F[i], b.F[i], st.Field(i).Type()))
		}
		return acc
	case *ArrayV:
		b := y.(*ArrayV)
		at := under(t).(*types.Array)
		acc := ts.True
		for i := range a.E {
			acc = ts.And(acc, r.valueEq(a.E[i], b.E[i], at.Elem()))
		}
		return acc
	case SliceV:
		// only comparison with nil is legal
		b := y.(SliceV)
		if b.P.IsNil() && b.Len == 0 && b.Cap == 0 {
			return ts.BoolConst(a.P.IsNil())
		}
		if a.P.IsNil() && a.Len == 0 && a.Cap == 0 {
			return ts.BoolConst(b.P.IsNil())
		}
	}
	r.engineFail("valueEq: unsupported %T", x)
	return nil
}

// ---------- floats ----------

func fpSort(w int) string {
	if w == 32 {
		return "8 24"
	}
	return "11 53"
}

func (r *Run) floatBinop(op token.Token, a, b *Term) Value {
	ts := r.ts
	w := a.W
	if a.IsConst() && b.IsConst() {
		var x, y float64
		if w == 32 {
			x, y = float64(math.Float32frombits(uint32(a.Val))), float64(math.Float32frombits(uint32(b.Val)))
		} else {
			x, y = math.Float64frombits(a.Val), math.Float64frombits(b.Val)
		}
		switch op {
		case token.EQL:
			return ts.BoolConst(x == y)
		case token.NEQ:
			return ts.BoolConst(x != y)
		case token.LSS:
			return ts.BoolConst(x < y)
		case token.LEQ:
			return ts.BoolConst(x <= y)
		case token.GTR:
			return ts.BoolConst(x > y)
		case token.GEQ:
			return ts.BoolConst(x >= y)
		}
	}
	// x == 0 / x != 0 without FP theory: all bits but the sign are zero
	if (op == token.EQL || op == token.NEQ) && (b.IsConst() && b.Val<<1 == 0 && w == 64 || b.IsConst() && uint32(b.Val)<<1 == 0 && w == 32) {
		z := ts.Eq(ts.Shl(a, ts.Const(w, 1)), ts.Const(w, 0))
		if op == token.NEQ {
			return ts.Not(z)
		}
		return z
	}
	fs := fpSort(w)
	fa := "((_ to_fp " + fs + ") $0)"
	fb := "((_ to_fp " + fs + ") $1)"
	switch op {
	case token.EQL:
		return ts.Raw(0, "(fp.eq "+fa+" "+fb+")", a, b)
	case token.NEQ:
		return ts.Not(ts.Raw(0, "(fp.eq "+fa+" "+fb+")", a, b))
	case token.LSS:
		return ts.Raw(0, "(fp.lt "+fa+" "+fb+")", a, b)
	case token.LEQ:
		return ts.Raw(0, "(fp.leq "+fa+" "+fb+")", a, b)
	case token.GTR:
		return ts.Raw(0, "(fp.gt "+fa+" "+fb+")", a, b)
	case token.GEQ:
		return ts.Raw(0, "(fp.geq "+fa+" "+fb+")", a, b)
	}
	var fop string
	switch op {
	case token.ADD:
		fop = "fp.add RNE"
	case token.SUB:
		fop = "fp.sub RNE"
	case token.MUL:
		fop = "fp.mul RNE"
	case token.QUO:
		fop = "fp.div RNE"
	default:
		r.engineFail("unsupported float op %v", op)
	}
	res := r.freshVar("fres", w)
	r.assume(ts.Raw(0, "(= ((_ to_fp "+fs+") $0) ("+fop+" ((_ to_fp "+fs+") $1) ((_ to_fp "+fs+") $2)))", res, a, b))
	return res
}

// ---------- conversions ----------

func (r *Run) convert(v Value, from, to types.Type) Value {
	ts := r.ts
	uf, ut := under(from), under(to)
	// pointer <-> unsafe.Pointer <-> uintptr
	if bt, ok := ut.(*types.Basic); ok && bt.Kind() == types.UnsafePointer {
		switch x := v.(type) {
		case Ptr:
			return x
		case UPtr:
			return x.P
		case *Term:
			if x.IsConst() && x.Val == 0 {
				return Ptr{}
			}
			return Ptr{Bad: x}
		}
	}
	if _, ok := ut.(*types.Pointer); ok {
		return r.asPtr(v)
	}
	if bf, ok := uf.(*types.Basic); ok && bf.Kind() == types.UnsafePointer {
		if bt, ok := ut.(*types.Basic); ok && bt.Kind() == types.Uintptr {
			p := v.(Ptr)
			if p.IsNil() {
				return ts.Const(64, 0)
			}
			if p.Bad != nil {
				return p.Bad
			}
			return UPtr{p}
		}
	}
	if up, ok := v.(UPtr); ok {
		if bt, ok := ut.(*types.Basic); ok && bt.Info()&types.IsInteger != 0 && r.eng.sizes.Sizeof(bt) == 8 {
			return up
		}
		r.engineFail("conversion of pointer-derived uintptr to %v", to)
	}
	switch tt := ut.(type) {
	case *types.Basic:
		switch {
		case tt.Info()&types.IsInteger != 0:
			x, ok := v.(*Term)
			if !ok {
				r.engineFail("convert %T to %v", v, to)
			}
			tw := bitWidth(r.eng.sizes, tt)
			if isFloat(from) {
				return r.floatToInt(x, tw, !isUnsigned(to))
			}
			if x.W == tw {
				return x
			}
			if x.W > tw {
				return ts.Extract(x, tw-1, 0)
			}
			if isUnsigned(from) {
				return ts.ZExt(x, tw)
			}
			return ts.SExt(x, tw)
		case tt.Info()&types.IsFloat != 0:
			x := v.(*Term)
			tw := bitWidth(r.eng.sizes, tt)
			if isFloat(from) {
				if x.W == tw {
					return x
				}
				return r.floatToFloat(x, tw)
			}
			return r.intToFloat(x, tw, !isUnsigned(from))
		case tt.Info()&types.IsString != 0:
			switch x := v.(type) {
			case Str:
				return x
			case SliceV:
				// string([]byte) copies
				if x.Len == 0 {
					return Str{}
				}
				o := r.newRaw(x.Len, KHeap, "string(bytes)")
				copy(o.B, r.regionBytes(x.P, x.Len))
				o.Frozen = true
				return Str{P: Ptr{Obj: o}, Len: x.Len}
			case *Term:
				if x.IsConst() && x.Val < 0x80 {
					return r.strLit(string(rune(x.Val)))
				}
			}
			r.engineFail("unsupported conversion to string from %T", v)
		}
	case *types.Slice:
		if s, ok := v.(Str); ok {
			// []byte(string)
			o := r.newArrayObject(tt.Elem(), s.Len, KHeap, "[]byte(string)")
			if s.Len > 0 {
				copy(o.B, r.regionBytes(s.P, s.Len))
			}
			if s.Len == 0 {
				// Go yields a non-nil empty slice
				return SliceV{P: Ptr{Obj: o}, Len: 0, Cap: 0}
			}
			return SliceV{P: Ptr{Obj: o}, Len: s.Len, Cap: s.Len}
		}
		if s, ok := v.(SliceV); ok {
			return s
		}
	}
	// identical underlying representation
	if types.Identical(uf, ut) {
		return v
	}
	r.engineFail("unsupported conversion %v -> %v (%T)", from, to, v)
	return nil
}

func (r *Run) floatToFloat(x *Term, tw int) *Term {
	ts := r.ts
	if x.IsConst() {
		if tw == 64 {
			return ts.Const(64, math.Float64bits(float64(math.Float32frombits(uint32(x.Val)))))
		}
		return ts.Const(32, uint64(math.Float32bits(float32(math.Float64frombits(x.Val)))))
	}
	key := [2]int{x.ID, tw}
	if v, ok := r.fconv[key]; ok {
		return v
	}
	// non-NaN: FP theory (the bit pattern is uniquely determined);
	// NaN: the amd64/arm64 conversion quiets the NaN and keeps the payload.
	res := r.freshVar("fconv", tw)
	r.assume(ts.Raw(0, "(= ((_ to_fp "+fpSort(tw)+") $0) ((_ to_fp "+fpSort(tw)+") RNE ((_ to_fp "+fpSort(x.W)+") $1)))", res, x))
	var out *Term
	if tw == 64 {
		exp := ts.Extract(x, 30, 23)
		man := ts.Extract(x, 22, 0)
		isNaN := ts.And(ts.Eq(exp, ts.Const(8, 0xFF)), ts.Ne(man, ts.Const(23, 0)))
		sign := ts.Extract(x, 31, 31)
		nan := ts.Concat(sign, ts.Concat(ts.Const(12, 0xFFF), ts.Concat(ts.Extract(man, 21, 0), ts.Const(29, 0))))
		out = ts.Ite(isNaN, nan, res)
	} else {
		exp := ts.Extract(x, 62, 52)
		man := ts.Extract(x, 51, 0)
		isNaN := ts.And(ts.Eq(exp, ts.Const(11, 0x7FF)), ts.Ne(man, ts.Const(52, 0)))
		sign := ts.Extract(x, 63, 63)
		nan := ts.Concat(sign, ts.Concat(ts.Const(9, 0x1FF), ts.Extract(man, 50, 29)))
		out = ts.Ite(isNaN, nan, res)
	}
	r.fconv[key] = out
	return out
}

func (r *Run) intToFloat(x *Term, tw int, signed bool) *Term {
	ts := r.ts
	if x.IsConst() {
		var f float64
		if signed {
			f = float64(signExt(x.Val, x.W))
		} else {
			f = float64(x.Val)
		}
		if tw == 32 {
			return ts.Const(32, uint64(math.Float32bits(float32(f))))
		}
		return ts.Const(64, math.Float64bits(f))
	}
	res := r.freshVar("i2f", tw)
	conv := "(_ to_fp " + fpSort(tw) + ")"
	if !signed {
		conv = "(_ to_fp_unsigned " + fpSort(tw) + ")"
	}
	r.assume(ts.Raw(0, "(= ((_ to_fp "+fpSort(tw)+") $0) ("+conv+" RNE $1))", res, x))
	return res
}

func (r *Run) floatToInt(x *Term, tw int, signed bool) *Term {
	ts := r.ts
	if x.IsConst() {
		var f float64
		if x.W == 32 {
			f = float64(math.Float32frombits(uint32(x.Val)))
		} else {
			f = math.Float64frombits(x.Val)
		}
		if signed {
			return ts.Const(tw, uint64(int64(f)))
		}
		return ts.Const(tw, uint64(f))
	}
	op := "fp.to_sbv"
	if !signed {
		op = "fp.to_ubv"
	}
	return ts.Raw(tw, fmt.Sprintf("((_ %s %d) RTZ ((_ to_fp %s) $0))", op, tw, fpSort(x.W)), x)
}

// ---------- indexing / slicing ----------

func (r *Run) indexTerm(v Value) *Term {
	t, ok := v.(*Term)
	if !ok {
		r.engineFail("index is %T", v)
	}
	if t.W < 64 {
		t = r.ts.SExt(t, 64)
	}
	return t
}

// boundedIndex checks 0 <= idx < n and returns a concrete index.
func (r *Run) boundedIndex(idx *Term, n int64, what string) int64 {
	ts := r.ts
	ok := ts.And(ts.SLE(ts.Const(64, 0), idx), ts.SLT(idx, ts.Const(64, uint64(n))))
	r.check(ok, "panic", "index out of range", fmt.Sprintf("%s: len %d", what, n))
	return r.concretizeSigned(idx, what)
}

func (r *Run) index(i *ssa.Index) Value {
	x := r.get(i.X)
	idx := r.indexTerm(r.get(i.Index))
	switch a := x.(type) {
	case *ArrayV:
		k := r.boundedIndex(idx, int64(len(a.E)), "array index")
		return a.E[k]
	case Str:
		return r.strIndex(a, idx)
	}
	r.engineFail("Index on %T", x)
	return nil
}

// strIndex reads s[idx]; a symbolic index into a short region becomes an
// if-then-else chain instead of a fork.
func (r *Run) strIndex(a Str, idx *Term) Value {
	ts := r.ts
	ok := ts.And(ts.SLE(ts.Const(64, 0), idx), ts.SLT(idx, ts.Const(64, uint64(a.Len))))
	r.check(ok, "panic", "index out of range", fmt.Sprintf("string index: len %d", a.Len))
	if idx.IsConst() {
		return r.loadBytes(Ptr{Obj: a.P.Obj, Off: a.P.Off + int64(idx.Val)}, 1)[0]
	}
	bs := r.regionBytes(a.P, a.Len)
	acc := bs[len(bs)-1]
	for k := len(bs) - 2; k >= 0; k-- {
		acc = ts.Ite(ts.Eq(idx, ts.Const(64, uint64(k))), bs[k], acc)
	}
	return acc
}

func (r *Run) indexAddr(i *ssa.IndexAddr) Value {
	x := r.get(i.X)
	idx := r.indexTerm(r.get(i.Index))
	switch a := x.(type) {
	case SliceV:
		et := under(i.X.Type()).(*types.Slice).Elem()
		k := r.boundedIndex(idx, a.Len, "slice index")
		return Ptr{Obj: a.P.Obj, Off: a.P.Off + k*r.eng.sizes.Sizeof(et), Bad: a.P.Bad}
	case Ptr:
		at := under(i.X.Type().(*types.Pointer).Elem()).(*types.Array)
		if a.IsNil() {
			r.fail("nil-deref", "index of nil array pointer", "")
		}
		k := r.boundedIndex(idx, at.Len(), "array index")
		return Ptr{Obj: a.Obj, Off: a.Off + k*r.eng.sizes.Sizeof(at.Elem()), Bad: a.Bad}
	}
	r.engineFail("IndexAddr on %T", x)
	return nil
}

func (r *Run) lookup(i *ssa.Lookup) Value {
	x := r.get(i.X)
	if s, ok := x.(Str); ok {
		return r.strIndex(s, r.indexTerm(r.get(i.Index)))
	}
	m := r.asPtr(x)
	mt := under(i.X.Type()).(*types.Map)
	val, found := r.mapLookup(m, r.get(i.Index), mt)
	if i.CommaOk {
		return Tuple{val, r.ts.BoolConst(found)}
	}
	return val
}

func (r *Run) optIndex(v ssa.Value, def int64, what string) *Term {
	if v == nil {
		return r.ts.Const(64, uint64(def))
	}
	return r.indexTerm(r.get(v))
}

func (r *Run) slice(i *ssa.Slice) Value {
	ts := r.ts
	x := r.get(i.X)
	var base Ptr
	var ln, cp, esz int64
	isStr := false
	switch a := x.(type) {
	case SliceV:
		base, ln, cp = a.P, a.Len, a.Cap
		esz = r.eng.sizes.Sizeof(under(i.X.Type()).(*types.Slice).Elem())
	case Str:
		base, ln, cp = a.P, a.Len, a.Len
		esz = 1
		isStr = true
	case Ptr:
		at := under(i.X.Type().(*types.Pointer).Elem()).(*types.Array)
		if a.IsNil() {
			r.fail("nil-deref", "slice of nil array pointer", "")
		}
		base, ln, cp = a, at.Len(), at.Len()
		esz = r.eng.sizes.Sizeof(at.Elem())
	default:
		r.engineFail("Slice on %T", x)
	}
	lo := r.optIndex(i.Low, 0, "lo")
	var hi *Term
	if i.High != nil {
		hi = r.indexTerm(r.get(i.High))
	} else {
		hi = ts.Const(64, uint64(ln))
	}
	mx := ts.Const(64, uint64(cp))
	if i.Max != nil {
		mx = r.indexTerm(r.get(i.Max))
		r.check(ts.And(ts.SLE(hi, mx), ts.SLE(mx, ts.Const(64, uint64(cp)))), "panic", "slice bounds out of range (max)", "")
	}
	limit := cp
	if isStr {
		limit = ln
	}
	ok := ts.And(ts.SLE(ts.Const(64, 0), lo), ts.And(ts.SLE(lo, hi), ts.SLE(hi, ts.Const(64, uint64(limit)))))
	r.check(ok, "panic", "slice bounds out of range", fmt.Sprintf("len=%d cap=%d", ln, cp))
	l := r.concretizeSigned(lo, "slice lo")
	h := r.concretizeSigned(hi, "slice hi")
	m := r.concretizeSigned(mx, "slice max")
	np := base
	if !(base.Obj == nil) {
		np = Ptr{Obj: base.Obj, Off: base.Off + l*esz, Bad: base.Bad}
	}
	if isStr {
		if h-l == 0 {
			return Str{}
		}
		return Str{P: np, Len: h - l}
	}
	return SliceV{P: np, Len: h - l, Cap: m - l}
}

func (r *Run) typeAssert(i *ssa.TypeAssert) Value {
	x := r.get(i.X).(Iface)
	ok := false
	var val Value
	if it, isI := under(i.AssertedType).(*types.Interface); isI {
		if x.T != nil {
			ok = r.implements(x.T, it)
		}
		if ok {
			val = x
		} else {
			val = Iface{}
		}
	} else {
		ok = x.T != nil && types.Identical(x.T, i.AssertedType)
		if ok {
			val = x.V
		} else {
			val = r.zeroValue(i.AssertedType)
		}
	}
	if i.CommaOk {
		return Tuple{val, r.ts.BoolConst(ok)}
	}
	if !ok {
		r.fail("panic", "interface conversion failed", fmt.Sprintf("%v is not %v", x.T, i.AssertedType))
	}
	return val
}

func (r *Run) implements(t types.Type, it *types.Interface) bool {
	if types.Implements(t, it) {
		return true
	}
	return false
}

// ---------- range ----------

type iterState struct {
	isStr bool
	s     Str
	pos   int64
	m     *Object
	order []*MapEntry
	k     int
}

func (r *Run) rangeInit(i *ssa.Range) Value {
	x := r.get(i.X)
	if s, ok := x.(Str); ok {
		return &iterState{isStr: true, s: s}
	}
	m := r.asPtr(x)
	it := &iterState{}
	if !m.IsNil() {
		it.m = m.Obj
		if r.eng.isHarnessFn(r.frame.fn) {
			// harness code must not depend on iteration order; insertion
			// order is one legal order and avoids forking n! ways
			it.order = append([]*MapEntry(nil), r.mapData(m).Entries...)
		} else {
			it.order = r.mapOrder(m.Obj)
		}
	}
	return it
}

func (r *Run) rangeNext(i *ssa.Next) Value {
	ts := r.ts
	it := r.get(i.Iter).(*iterState)
	if i.IsString {
		if it.pos >= it.s.Len {
			return Tuple{ts.False, ts.Const(64, 0), ts.Const(32, 0)}
		}
		start := it.pos
		b := r.loadBytes(Ptr{Obj: it.s.P.Obj, Off: it.s.P.Off + start}, 1)[0]
		if r.branch(ts.ULT(b, ts.Const(8, 0x80))) {
			it.pos++
			return Tuple{ts.True, ts.Const(64, uint64(start)), ts.ZExt(b, 32)}
		}
		// non-ASCII lead byte: the rune is some value >= 0x80 (RuneError
		// included) and the width is 1..min(4, remaining). Over-approximation.
		rv := r.freshVar("rune", 32)
		r.assume(ts.ULE(ts.Const(32, 0x80), rv))
		r.assume(ts.ULE(rv, ts.Const(32, 0x10FFFF)))
		rem := it.s.Len - start
		maxw := int64(4)
		if rem < maxw {
			maxw = rem
		}
		w := int64(r.decide(int(maxw), nil)) + 1
		it.pos += w
		return Tuple{ts.True, ts.Const(64, uint64(start)), rv}
	}
	mt := under(i.Iter.(*ssa.Range).X.Type()).(*types.Map)
	if it.k >= len(it.order) {
		return Tuple{ts.False, r.zeroValue(mt.Key()), r.zeroValue(mt.Elem())}
	}
	e := it.order[it.k]
	it.k++
	return Tuple{ts.True, e.Key, r.loadT(Ptr{Obj: e.Elem}, mt.Elem())}
}
