package main

// Symbolic type descriptors (C15): reflect.Type values whose Kind is a solver
// variable and whose structure (element, key, fields, tags, sharing, cycles)
// is decided lazily by forking, so that code driven by reflect.Type — schema
// generation, codec construction — is explored over types instead of over a
// hand-picked list.

import (
	"fmt"
	"go/types"
)

type symField struct {
	name     string
	exported bool
	tag      string
	typ      int
}

type symNode struct {
	id      int
	kind    *Term
	elem    int
	key     int
	nfields int
	fields  []*symField
	used    bool
	arrLen  *Term
	size    *Term
}

var symTags = []string{
	"",
	`json:"nm%d,omitempty"`,
	`json:"nm%d"`,
	`json:"-"`,
	`bq:"-"`,
	`json:",omitempty"`,
	`json:"nm%d,string,omitempty" bq:"x"`,
}

func (r *Run) symParam(name string, def int) int {
	if v, ok := r.flags[name]; ok {
		return int(v)
	}
	return def
}

// newSymNodes creates n descriptor nodes with symbolic kinds.
func (r *Run) newSymNodes(tag string, n int) []Value {
	out := make([]Value, n)
	rt := r.namedType("reflect", "rtype")
	pt := r.eng.canon(types.NewPointer(rt))
	for i := 0; i < n; i++ {
		k := r.newInput(fmt.Sprintf("%s.kind%d", tag, i), 64)
		r.assume(r.ts.ULE(r.ts.Const(64, 1), k))
		r.assume(r.ts.ULE(k, r.ts.Const(64, 26)))
		o := r.newRaw(48, KRType, fmt.Sprintf("symtype%d", i))
		o.Frozen = true
		o.Owned = true
		o.Sym = &symNode{id: i, kind: k, elem: -1, key: -1, nfields: -1}
		r.symNodes = append(r.symNodes, o)
		out[i] = Iface{T: pt, V: Ptr{Obj: o}}
	}
	if n > 0 {
		r.symNodes[len(r.symNodes)-n].Sym.used = true // the root
	}
	return out
}

func (r *Run) symIface(idx int) Iface {
	rt := r.namedType("reflect", "rtype")
	return Iface{T: r.eng.canon(types.NewPointer(rt)), V: Ptr{Obj: r.symNodes[idx]}}
}

func (r *Run) kindIs(n *symNode, kinds ...uint64) *Term {
	acc := r.ts.False
	for _, k := range kinds {
		acc = r.ts.Or(acc, r.ts.Eq(n.kind, r.ts.Const(64, k)))
	}
	return acc
}

// firstUnused returns the index of the next unreferenced node, or -1.
func (r *Run) firstUnused() int {
	for i, o := range r.symNodes {
		if !o.Sym.used {
			return i
		}
	}
	return -1
}

func (r *Run) symInvoke(n *symNode, method string, args []Value) Value {
	ts := r.ts
	switch method {
	case "Kind":
		return n.kind
	case "Name":
		if r.branch(r.kindIs(n, 25)) {
			return r.strLit(fmt.Sprintf("N%d", n.id))
		}
		return r.strLit("")
	case "PkgPath":
		return r.strLit("verif/sym")
	case "String":
		return r.strLit(fmt.Sprintf("sym%d", n.id))
	case "Size":
		if n.size == nil {
			n.size = r.freshVar("symsize", 64)
			r.assume(ts.ULE(n.size, ts.Const(64, 1<<20)))
		}
		return n.size
	case "Len":
		if !r.branch(r.kindIs(n, 17)) {
			r.fail("panic", "reflect: Len of non-array type", "")
		}
		if n.arrLen == nil {
			n.arrLen = r.freshVar("symlen", 64)
			r.assume(ts.ULE(n.arrLen, ts.Const(64, 1<<20)))
		}
		return n.arrLen
	case "Elem":
		if !r.branch(r.kindIs(n, 17, 18, 21, 22, 23)) {
			r.fail("panic", "reflect: Elem of invalid type", "")
		}
		if n.elem < 0 {
			isArr := r.branch(r.kindIs(n, 17))
			var opts []int
			if !isArr {
				// pointer, slice, map, chan: may close a cycle or share a node
				for i, o := range r.symNodes {
					if o.Sym.used {
						opts = append(opts, i)
					}
				}
			}
			if u := r.firstUnused(); u >= 0 {
				opts = append(opts, u)
			}
			if len(opts) == 0 {
				panic(pathEnd{"type-node budget exhausted"})
			}
			n.elem = opts[r.decide(len(opts), nil)]
			r.symNodes[n.elem].Sym.used = true
		}
		return r.symIface(n.elem)
	case "Key":
		if !r.branch(r.kindIs(n, 21)) {
			r.fail("panic", "reflect: Key of non-map type", "")
		}
		if n.key < 0 {
			u := r.firstUnused()
			if u < 0 {
				panic(pathEnd{"type-node budget exhausted"})
			}
			n.key = u
			kn := r.symNodes[u].Sym
			kn.used = true
			// map keys are comparable: basic kinds and strings
			r.assume(ts.Or(ts.ULE(kn.kind, ts.Const(64, 16)), ts.Eq(kn.kind, ts.Const(64, 24))))
		}
		return r.symIface(n.key)
	case "NumField":
		if !r.branch(r.kindIs(n, 25)) {
			r.fail("panic", "reflect: NumField of non-struct type", "")
		}
		if n.nfields < 0 {
			n.nfields = r.decide(r.symParam("sym.maxfields", 2)+1, nil)
			n.fields = make([]*symField, n.nfields)
		}
		return ts.Const(64, uint64(n.nfields))
	case "Field":
		if !r.branch(r.kindIs(n, 25)) {
			r.fail("panic", "reflect: Field of non-struct type", "")
		}
		if n.nfields < 0 {
			n.nfields = r.decide(r.symParam("sym.maxfields", 2)+1, nil)
			n.fields = make([]*symField, n.nfields)
		}
		i := r.boundedIndex(r.indexTerm(args[0]), int64(n.nfields), "reflect Field index")
		f := n.fields[i]
		if f == nil {
			f = &symField{}
			f.exported = r.decide(2, nil) == 0
			if f.exported {
				f.name = fmt.Sprintf("F%d", i)
			} else {
				f.name = fmt.Sprintf("f%d", i)
			}
			// unexported fields are skipped before their tag is looked at
			if f.exported {
				nt := r.symParam("sym.tags", len(symTags))
				if nt > len(symTags) {
					nt = len(symTags)
				}
				tg := symTags[r.decide(nt, nil)]
				if len(tg) > 0 && containsVerb(tg) {
					tg = fmt.Sprintf(tg, i)
				}
				f.tag = tg
			}
			// field type: a fresh node, or (second field) the first field's
			// node again: the same type in two positions
			var opts []int
			if u := r.firstUnused(); u >= 0 {
				opts = append(opts, u)
			}
			if i > 0 && n.fields[0] != nil {
				opts = append(opts, n.fields[0].typ)
			}
			if len(opts) == 0 {
				panic(pathEnd{"type-node budget exhausted"})
			}
			f.typ = opts[r.decide(len(opts), nil)]
			r.symNodes[f.typ].Sym.used = true
			n.fields[i] = f
		}
		return r.symStructField(n, int(i), f)
	case "Comparable":
		return ts.BoolConst(true)
	}
	r.engineFail("reflect.Type.%s on a symbolic type descriptor is not modelled", method)
	return nil
}

func containsVerb(s string) bool {
	for i := 0; i+1 < len(s); i++ {
		if s[i] == '%' && s[i+1] == 'd' {
			return true
		}
	}
	return false
}

func (r *Run) symStructField(n *symNode, i int, f *symField) Value {
	sfT := under(r.namedType("reflect", "StructField")).(*types.Struct)
	sv := &StructV{F: make([]Value, sfT.NumFields())}
	for k := 0; k < sfT.NumFields(); k++ {
		switch sfT.Field(k).Name() {
		case "Name":
			sv.F[k] = r.strLit(f.name)
		case "PkgPath":
			if f.exported {
				sv.F[k] = Str{}
			} else {
				sv.F[k] = r.strLit("verif/sym")
			}
		case "Type":
			sv.F[k] = r.symIface(f.typ)
		case "Tag":
			sv.F[k] = r.strLit(f.tag)
		case "Offset":
			sv.F[k] = r.ts.Const(64, uint64(16*i))
		case "Index":
			o := r.newArrayObject(types.Typ[types.Int], 1, KHeap, "sf.Index")
			r.storeInt(Ptr{Obj: o}, r.ts.Const(64, uint64(i)))
			sv.F[k] = SliceV{P: Ptr{Obj: o}, Len: 1, Cap: 1}
		case "Anonymous":
			sv.F[k] = r.ts.False
		default:
			sv.F[k] = r.zeroValue(sfT.Field(k).Type())
		}
	}
	return sv
}
