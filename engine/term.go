package main

// SMT term DAG with hash-consing and local simplification.
//
// Sorts: W == 0 is Bool, W in 1..64 is (_ BitVec W).  Constants are kept as
// uint64 so that everything the interpreter does on concrete data is folded
// here and never reaches the solver.

import (
	"fmt"
	"math/bits"
	"strings"
)

type Op uint8

const (
	OpConst Op = iota
	OpVar
	// bool
	OpNot
	OpAnd
	OpOr
	OpEq // args same sort, result bool
	OpIte
	// bv -> bv
	OpAdd
	OpSub
	OpMul
	OpUDiv
	OpURem
	OpSDiv
	OpSRem
	OpBAnd
	OpBOr
	OpBXor
	OpShl
	OpLShr
	OpAShr
	OpBNot
	OpNeg
	// bv -> bool
	OpULT
	OpULE
	OpSLT
	OpSLE
	// width changing
	OpConcat  // args[0] high, args[1] low
	OpExtract // Hi, Lo
	OpZExt
	OpSExt
	// raw: printf-style SMT text over args (used for FP theory), result sort W
	OpRaw
)

var opNames = map[Op]string{
	OpNot: "not", OpAnd: "and", OpOr: "or", OpEq: "=", OpIte: "ite",
	OpAdd: "bvadd", OpSub: "bvsub", OpMul: "bvmul", OpUDiv: "bvudiv", OpURem: "bvurem",
	OpSDiv: "bvsdiv", OpSRem: "bvsrem", OpBAnd: "bvand", OpBOr: "bvor", OpBXor: "bvxor",
	OpShl: "bvshl", OpLShr: "bvlshr", OpAShr: "bvashr", OpBNot: "bvnot", OpNeg: "bvneg",
	OpULT: "bvult", OpULE: "bvule", OpSLT: "bvslt", OpSLE: "bvsle", OpConcat: "concat",
}

type Term struct {
	ID   int
	Op   Op
	W    int // 0 bool, else bit-vector width
	Args []*Term
	Val  uint64 // OpConst (bool: 0/1)
	Name string // OpVar name; OpRaw format
	Hi   int    // OpExtract
	Lo   int
	ub   uint64 // unsigned upper bound (valid if ubOK)
	ubOK bool
}

func (t *Term) IsConst() bool { return t.Op == OpConst }
func (t *Term) IsBool() bool  { return t.W == 0 }

// TermStore interns terms. One per worker; not safe for concurrent use.
type TermStore struct {
	tab    map[string]*Term
	nextID int
	True   *Term
	False  *Term
}

func NewTermStore() *TermStore {
	ts := &TermStore{tab: map[string]*Term{}}
	ts.True = ts.BoolConst(true)
	ts.False = ts.BoolConst(false)
	return ts
}

func mask(w int) uint64 {
	if w >= 64 {
		return ^uint64(0)
	}
	return (uint64(1) << uint(w)) - 1
}

func signExt(v uint64, w int) int64 {
	if w >= 64 {
		return int64(v)
	}
	sh := uint(64 - w)
	return int64(v<<sh) >> sh
}

func (ts *TermStore) intern(t *Term) *Term {
	var sb strings.Builder
	fmt.Fprintf(&sb, "%d|%d|%d|%d|%d|%s|", t.Op, t.W, t.Val, t.Hi, t.Lo, t.Name)
	for _, a := range t.Args {
		fmt.Fprintf(&sb, "%d,", a.ID)
	}
	k := sb.String()
	if e, ok := ts.tab[k]; ok {
		return e
	}
	ts.nextID++
	t.ID = ts.nextID
	ts.tab[k] = t
	return t
}

func (ts *TermStore) Const(w int, v uint64) *Term {
	if w <= 0 || w > 64 {
		panic(fmt.Sprintf("Const: bad width %d", w))
	}
	return ts.intern(&Term{Op: OpConst, W: w, Val: v & mask(w)})
}

func (ts *TermStore) BoolConst(b bool) *Term {
	v := uint64(0)
	if b {
		v = 1
	}
	return ts.intern(&Term{Op: OpConst, W: 0, Val: v})
}

func (ts *TermStore) Var(name string, w int) *Term {
	return ts.intern(&Term{Op: OpVar, W: w, Name: name})
}

func (ts *TermStore) Raw(w int, format string, args ...*Term) *Term {
	return ts.intern(&Term{Op: OpRaw, W: w, Name: format, Args: args})
}

func (ts *TermStore) mk(op Op, w int, args ...*Term) *Term {
	return ts.intern(&Term{Op: op, W: w, Args: args})
}

// ---------- boolean ----------

func (ts *TermStore) Not(a *Term) *Term {
	if a.W != 0 {
		panic("Not: non-bool")
	}
	if a.IsConst() {
		return ts.BoolConst(a.Val == 0)
	}
	if a.Op == OpNot {
		return a.Args[0]
	}
	return ts.mk(OpNot, 0, a)
}

func (ts *TermStore) And(a, b *Term) *Term {
	if a.W != 0 || b.W != 0 {
		panic("And: non-bool")
	}
	if a.IsConst() {
		if a.Val == 0 {
			return ts.False
		}
		return b
	}
	if b.IsConst() {
		if b.Val == 0 {
			return ts.False
		}
		return a
	}
	if a == b {
		return a
	}
	return ts.mk(OpAnd, 0, a, b)
}

func (ts *TermStore) Or(a, b *Term) *Term {
	if a.W != 0 || b.W != 0 {
		panic("Or: non-bool")
	}
	if a.IsConst() {
		if a.Val != 0 {
			return ts.True
		}
		return b
	}
	if b.IsConst() {
		if b.Val != 0 {
			return ts.True
		}
		return a
	}
	if a == b {
		return a
	}
	return ts.mk(OpOr, 0, a, b)
}

func (ts *TermStore) Implies(a, b *Term) *Term { return ts.Or(ts.Not(a), b) }

func (ts *TermStore) Eq(a, b *Term) *Term {
	if a.W != b.W {
		panic(fmt.Sprintf("Eq: width mismatch %d vs %d", a.W, b.W))
	}
	if a == b {
		return ts.True
	}
	if a.IsConst() && b.IsConst() {
		return ts.BoolConst(a.Val == b.Val)
	}
	if a.IsConst() {
		a, b = b, a
	}
	// ite(c, k1, k2) == k  with constants
	if b.IsConst() && a.Op == OpIte && a.Args[1].IsConst() && a.Args[2].IsConst() {
		t1 := a.Args[1].Val == b.Val
		t2 := a.Args[2].Val == b.Val
		switch {
		case t1 && t2:
			return ts.True
		case t1 && !t2:
			return a.Args[0]
		case !t1 && t2:
			return ts.Not(a.Args[0])
		default:
			return ts.False
		}
	}
	if a.W == 0 && b.IsConst() {
		if b.Val != 0 {
			return a
		}
		return ts.Not(a)
	}
	// zext(x) == const
	if b.IsConst() && a.Op == OpZExt {
		inner := a.Args[0]
		if b.Val&^mask(inner.W) != 0 {
			return ts.False
		}
		return ts.Eq(inner, ts.Const(inner.W, b.Val))
	}
	if a.ID > b.ID && !b.IsConst() {
		a, b = b, a
	}
	return ts.mk(OpEq, 0, a, b)
}

func (ts *TermStore) Ne(a, b *Term) *Term { return ts.Not(ts.Eq(a, b)) }

func (ts *TermStore) Ite(c, a, b *Term) *Term {
	if c.W != 0 || a.W != b.W {
		panic("Ite: sorts")
	}
	if c.IsConst() {
		if c.Val != 0 {
			return a
		}
		return b
	}
	if a == b {
		return a
	}
	if a.W == 0 && a.IsConst() && b.IsConst() {
		if a.Val != 0 && b.Val == 0 {
			return c
		}
		if a.Val == 0 && b.Val != 0 {
			return ts.Not(c)
		}
	}
	return ts.mk(OpIte, a.W, c, a, b)
}

// ---------- bit-vector arithmetic ----------

// UB returns an unsigned upper bound of a bit-vector term (syntactic range
// analysis; mask(w) when nothing better is known).
func (ts *TermStore) UB(t *Term) uint64 {
	if t.ubOK {
		return t.ub
	}
	m := mask(t.W)
	u := m
	switch t.Op {
	case OpConst:
		u = t.Val
	case OpZExt:
		u = ts.UB(t.Args[0])
	case OpExtract:
		if t.Lo == 0 {
			if x := ts.UB(t.Args[0]); x < u {
				u = x
			}
		}
	case OpConcat:
		h := ts.UB(t.Args[0])
		lw := uint(t.Args[1].W)
		if h <= mask(t.Args[0].W) {
			u = h<<lw | mask(int(lw))
		}
	case OpBAnd:
		a, b := ts.UB(t.Args[0]), ts.UB(t.Args[1])
		if a < b {
			u = a
		} else {
			u = b
		}
	case OpBOr, OpBXor:
		a, b := ts.UB(t.Args[0]), ts.UB(t.Args[1])
		if b > a {
			a = b
		}
		u = mask(bits.Len64(a))
		if bits.Len64(a) == 0 {
			u = 0
		}
	case OpLShr:
		if c := t.Args[1]; c.IsConst() && c.Val < 64 {
			u = ts.UB(t.Args[0]) >> c.Val
		}
	case OpShl:
		if c := t.Args[1]; c.IsConst() && c.Val < 64 {
			a := ts.UB(t.Args[0])
			if bits.Len64(a)+int(c.Val) <= t.W {
				u = a << c.Val
			}
		}
	case OpAdd:
		a, b := ts.UB(t.Args[0]), ts.UB(t.Args[1])
		if s, carry := bits.Add64(a, b, 0); carry == 0 && s <= m {
			u = s
		}
	case OpMul:
		a, b := ts.UB(t.Args[0]), ts.UB(t.Args[1])
		if hi, lo := bits.Mul64(a, b); hi == 0 && lo <= m {
			u = lo
		}
	case OpURem:
		if c := t.Args[1]; c.IsConst() && c.Val > 0 {
			u = c.Val - 1
			if a := ts.UB(t.Args[0]); a < u {
				u = a
			}
		}
	case OpUDiv:
		if c := t.Args[1]; c.IsConst() && c.Val > 0 {
			u = ts.UB(t.Args[0]) / c.Val
		}
	case OpIte:
		a, b := ts.UB(t.Args[1]), ts.UB(t.Args[2])
		if b > a {
			a = b
		}
		u = a
	}
	if u > m {
		u = m
	}
	t.ub, t.ubOK = u, true
	return u
}

// narrow performs an add/mul whose result provably fits k < w bits at width k
// (bit-blasting a 64-bit multiplier for what is a 12-bit product is what makes
// digit arithmetic slow).
func (ts *TermStore) narrow(op Op, a, b *Term) *Term {
	w := a.W
	if w <= 16 || a.IsConst() && b.IsConst() {
		return nil
	}
	ua, ub := ts.UB(a), ts.UB(b)
	var res uint64
	if op == OpAdd {
		s, carry := bits.Add64(ua, ub, 0)
		if carry != 0 {
			return nil
		}
		res = s
	} else {
		hi, lo := bits.Mul64(ua, ub)
		if hi != 0 {
			return nil
		}
		res = lo
	}
	k := bits.Len64(res)
	if k < 8 {
		k = 8
	}
	k = (k + 7) &^ 7
	if k > w/2 {
		return nil
	}
	na := ts.lowBits(a, k)
	nb := ts.lowBits(b, k)
	return ts.ZExt(ts.bin(op, na, nb), w)
}

// lowBits returns the low k bits of t, pushing the truncation through sums
// and products (whose low bits depend on the operands' low bits only). Used
// by narrow only: memory byte-splitting must keep using plain Extract so that
// a stored value reassembles to the very same term.
func (ts *TermStore) lowBits(t *Term, k int) *Term {
	if k >= t.W {
		return t
	}
	switch t.Op {
	case OpAdd, OpMul:
		return ts.bin(t.Op, ts.lowBits(t.Args[0], k), ts.lowBits(t.Args[1], k))
	}
	return ts.Extract(t, k-1, 0)
}

func (ts *TermStore) bin(op Op, a, b *Term) *Term {
	if a.W != b.W || a.W == 0 {
		panic(fmt.Sprintf("bin %s: width mismatch %d vs %d", opNames[op], a.W, b.W))
	}
	w := a.W
	if op == OpAdd || op == OpMul {
		if n := ts.narrow(op, a, b); n != nil {
			return n
		}
	}
	if a.IsConst() && b.IsConst() {
		x, y := a.Val, b.Val
		var r uint64
		switch op {
		case OpAdd:
			r = x + y
		case OpSub:
			r = x - y
		case OpMul:
			r = x * y
		case OpUDiv:
			if y == 0 {
				r = mask(w)
			} else {
				r = x / y
			}
		case OpURem:
			if y == 0 {
				r = x
			} else {
				r = x % y
			}
		case OpSDiv:
			sx, sy := signExt(x, w), signExt(y, w)
			if sy == 0 {
				if sx < 0 {
					r = 1
				} else {
					r = mask(w)
				}
			} else if sy == -1 {
				r = uint64(-sx)
			} else {
				r = uint64(sx / sy)
			}
		case OpSRem:
			sx, sy := signExt(x, w), signExt(y, w)
			if sy == 0 {
				r = x
			} else if sy == -1 {
				r = 0
			} else {
				r = uint64(sx % sy)
			}
		case OpBAnd:
			r = x & y
		case OpBOr:
			r = x | y
		case OpBXor:
			r = x ^ y
		case OpShl:
			if y >= uint64(w) {
				r = 0
			} else {
				r = x << y
			}
		case OpLShr:
			if y >= uint64(w) {
				r = 0
			} else {
				r = x >> y
			}
		case OpAShr:
			sx := signExt(x, w)
			if y >= uint64(w) {
				if sx < 0 {
					r = mask(w)
				} else {
					r = 0
				}
			} else {
				r = uint64(sx >> y)
			}
		}
		return ts.Const(w, r)
	}
	// identities
	switch op {
	case OpAdd:
		if a.IsConst() && a.Val == 0 {
			return b
		}
		if b.IsConst() && b.Val == 0 {
			return a
		}
		// (x + c1) + c2
		if b.IsConst() && a.Op == OpAdd && a.Args[1].IsConst() {
			return ts.bin(OpAdd, a.Args[0], ts.Const(w, a.Args[1].Val+b.Val))
		}
		if a.IsConst() {
			a, b = b, a
		}
	case OpSub:
		if b.IsConst() && b.Val == 0 {
			return a
		}
		if a == b {
			return ts.Const(w, 0)
		}
		if b.IsConst() {
			return ts.bin(OpAdd, a, ts.Const(w, -b.Val))
		}
	case OpMul:
		if a.IsConst() {
			a, b = b, a
		}
		if b.IsConst() {
			if b.Val == 0 {
				return b
			}
			if b.Val == 1 {
				return a
			}
			if b.Val == mask(w) {
				return ts.Neg(a)
			}
		}
	case OpBAnd:
		if a.IsConst() {
			a, b = b, a
		}
		if b.IsConst() {
			if b.Val == 0 {
				return b
			}
			if b.Val == mask(w) {
				return a
			}
		}
		if a == b {
			return a
		}
	case OpBOr:
		if a.IsConst() {
			a, b = b, a
		}
		if b.IsConst() {
			if b.Val == 0 {
				return a
			}
			if b.Val == mask(w) {
				return b
			}
		}
		if a == b {
			return a
		}
	case OpBXor:
		if a.IsConst() {
			a, b = b, a
		}
		if b.IsConst() && b.Val == 0 {
			return a
		}
		if a == b {
			return ts.Const(w, 0)
		}
	case OpShl, OpLShr, OpAShr:
		if b.IsConst() && b.Val == 0 {
			return a
		}
		if a.IsConst() && a.Val == 0 {
			return a
		}
		if b.IsConst() && b.Val >= uint64(w) && op != OpAShr {
			return ts.Const(w, 0)
		}
	case OpUDiv, OpSDiv:
		if b.IsConst() && b.Val == 1 {
			return a
		}
	}
	return ts.mk(op, w, a, b)
}

func (ts *TermStore) Add(a, b *Term) *Term  { return ts.bin(OpAdd, a, b) }
func (ts *TermStore) Sub(a, b *Term) *Term  { return ts.bin(OpSub, a, b) }
func (ts *TermStore) Mul(a, b *Term) *Term  { return ts.bin(OpMul, a, b) }
func (ts *TermStore) UDiv(a, b *Term) *Term { return ts.bin(OpUDiv, a, b) }
func (ts *TermStore) URem(a, b *Term) *Term { return ts.bin(OpURem, a, b) }
func (ts *TermStore) SDiv(a, b *Term) *Term { return ts.bin(OpSDiv, a, b) }
func (ts *TermStore) SRem(a, b *Term) *Term { return ts.bin(OpSRem, a, b) }
func (ts *TermStore) BAnd(a, b *Term) *Term { return ts.bin(OpBAnd, a, b) }
func (ts *TermStore) BOr(a, b *Term) *Term  { return ts.bin(OpBOr, a, b) }
func (ts *TermStore) BXor(a, b *Term) *Term { return ts.bin(OpBXor, a, b) }
func (ts *TermStore) Shl(a, b *Term) *Term  { return ts.bin(OpShl, a, b) }
func (ts *TermStore) LShr(a, b *Term) *Term { return ts.bin(OpLShr, a, b) }
func (ts *TermStore) AShr(a, b *Term) *Term { return ts.bin(OpAShr, a, b) }

func (ts *TermStore) BNot(a *Term) *Term {
	if a.IsConst() {
		return ts.Const(a.W, ^a.Val)
	}
	if a.Op == OpBNot {
		return a.Args[0]
	}
	return ts.mk(OpBNot, a.W, a)
}

func (ts *TermStore) Neg(a *Term) *Term {
	if a.IsConst() {
		return ts.Const(a.W, -a.Val)
	}
	return ts.mk(OpNeg, a.W, a)
}

func (ts *TermStore) cmp(op Op, a, b *Term) *Term {
	if a.W != b.W || a.W == 0 {
		panic(fmt.Sprintf("cmp %s: width mismatch %d vs %d", opNames[op], a.W, b.W))
	}
	if a.IsConst() && b.IsConst() {
		var r bool
		switch op {
		case OpULT:
			r = a.Val < b.Val
		case OpULE:
			r = a.Val <= b.Val
		case OpSLT:
			r = signExt(a.Val, a.W) < signExt(b.Val, a.W)
		case OpSLE:
			r = signExt(a.Val, a.W) <= signExt(b.Val, a.W)
		}
		return ts.BoolConst(r)
	}
	if a == b {
		return ts.BoolConst(op == OpULE || op == OpSLE)
	}
	// unsigned comparisons of a zero-extended value against a constant that
	// exceeds the inner range fold (byte < 0x100 etc.)
	if op == OpULT && b.IsConst() {
		if b.Val == 0 {
			return ts.False
		}
		if a.Op == OpZExt && b.Val > mask(a.Args[0].W) {
			return ts.True
		}
	}
	if op == OpULE && b.IsConst() {
		if b.Val == mask(a.W) {
			return ts.True
		}
		if a.Op == OpZExt && b.Val >= mask(a.Args[0].W) {
			return ts.True
		}
	}
	return ts.mk(op, 0, a, b)
}

func (ts *TermStore) ULT(a, b *Term) *Term { return ts.cmp(OpULT, a, b) }
func (ts *TermStore) ULE(a, b *Term) *Term { return ts.cmp(OpULE, a, b) }
func (ts *TermStore) SLT(a, b *Term) *Term { return ts.cmp(OpSLT, a, b) }
func (ts *TermStore) SLE(a, b *Term) *Term { return ts.cmp(OpSLE, a, b) }

// ---------- width changing ----------

func (ts *TermStore) ZExt(a *Term, w int) *Term {
	if w < a.W {
		panic("ZExt: narrowing")
	}
	if w == a.W {
		return a
	}
	if a.IsConst() {
		return ts.Const(w, a.Val)
	}
	if a.Op == OpZExt {
		return ts.ZExt(a.Args[0], w)
	}
	return ts.mk(OpZExt, w, a)
}

func (ts *TermStore) SExt(a *Term, w int) *Term {
	if w < a.W {
		panic("SExt: narrowing")
	}
	if w == a.W {
		return a
	}
	if a.IsConst() {
		return ts.Const(w, uint64(signExt(a.Val, a.W)))
	}
	if a.Op == OpZExt {
		// sign bit is known zero
		return ts.ZExt(a.Args[0], w)
	}
	return ts.mk(OpSExt, w, a)
}

func (ts *TermStore) Extract(a *Term, hi, lo int) *Term {
	if hi < lo || lo < 0 || hi >= a.W {
		panic(fmt.Sprintf("Extract[%d:%d] of width %d", hi, lo, a.W))
	}
	w := hi - lo + 1
	if w == a.W {
		return a
	}
	if a.IsConst() {
		return ts.Const(w, a.Val>>uint(lo))
	}
	switch a.Op {
	case OpExtract:
		return ts.Extract(a.Args[0], a.Lo+hi, a.Lo+lo)
	case OpConcat:
		lw := a.Args[1].W
		if hi < lw {
			return ts.Extract(a.Args[1], hi, lo)
		}
		if lo >= lw {
			return ts.Extract(a.Args[0], hi-lw, lo-lw)
		}
	case OpZExt:
		iw := a.Args[0].W
		if hi < iw {
			return ts.Extract(a.Args[0], hi, lo)
		}
		if lo >= iw {
			return ts.Const(w, 0)
		}
	case OpSExt:
		iw := a.Args[0].W
		if hi < iw {
			return ts.Extract(a.Args[0], hi, lo)
		}
	case OpIte:
		if a.Args[1].IsConst() && a.Args[2].IsConst() {
			return ts.Ite(a.Args[0], ts.Extract(a.Args[1], hi, lo), ts.Extract(a.Args[2], hi, lo))
		}
	case OpBAnd, OpBOr, OpBXor:
		// bitwise ops distribute over extract; helps byte-granular memory
		if a.Args[1].IsConst() {
			return ts.bin(a.Op, ts.Extract(a.Args[0], hi, lo), ts.Extract(a.Args[1], hi, lo))
		}
	}
	t := &Term{Op: OpExtract, W: w, Args: []*Term{a}, Hi: hi, Lo: lo}
	return ts.intern(t)
}

func (ts *TermStore) Concat(hiT, loT *Term) *Term {
	w := hiT.W + loT.W
	if w > 64 {
		panic("Concat: width > 64")
	}
	if hiT.IsConst() && loT.IsConst() {
		return ts.Const(w, hiT.Val<<uint(loT.W)|loT.Val)
	}
	// extract(x,h,m+1) ++ extract(x,m,l)  ->  extract(x,h,l)
	if hiT.Op == OpExtract && loT.Op == OpExtract && hiT.Args[0] == loT.Args[0] && hiT.Lo == loT.Hi+1 {
		return ts.Extract(hiT.Args[0], hiT.Hi, loT.Lo)
	}
	// extract(x,h,m+1) ++ x[m:0] where lo is x itself of width m+1
	if hiT.Op == OpExtract && hiT.Args[0] == loT && hiT.Lo == loT.W {
		return ts.Extract(loT, hiT.Hi, 0)
	}
	// 0 ++ x -> zext
	if hiT.IsConst() && hiT.Val == 0 {
		return ts.ZExt(loT, w)
	}
	// (a ++ b) ++ c : try to merge b with c
	if hiT.Op == OpConcat {
		inner := ts.Concat(hiT.Args[1], loT)
		if inner.Op != OpConcat || inner.Args[0] != hiT.Args[1] {
			return ts.Concat(hiT.Args[0], inner)
		}
	}
	return ts.mk(OpConcat, w, hiT, loT)
}

// FromBytes assembles little-endian bytes (bytes[0] least significant).
func (ts *TermStore) FromBytes(bs []*Term) *Term {
	if len(bs) == 0 || len(bs) > 8 {
		panic("FromBytes: bad length")
	}
	// fast path: all bytes are extracts of the same term in order
	acc := bs[0]
	for i := 1; i < len(bs); i++ {
		acc = ts.Concat(bs[i], acc)
	}
	// sign-extension recovery: high bytes that are all copies of the
	// sign of the lower part are common after sext+store+load; the generic
	// Concat rules already rebuild extract chains of a single term.
	return acc
}

// ToBytes splits a bit-vector into little-endian bytes.
func (ts *TermStore) ToBytes(t *Term) []*Term {
	if t.W%8 != 0 {
		panic("ToBytes: width not multiple of 8")
	}
	n := t.W / 8
	out := make([]*Term, n)
	for i := 0; i < n; i++ {
		out[i] = ts.Extract(t, 8*i+7, 8*i)
	}
	return out
}

func (ts *TermStore) BoolToBV(b *Term, w int) *Term {
	return ts.Ite(b, ts.Const(w, 1), ts.Const(w, 0))
}

// ---------- printing ----------

func constStr(w int, v uint64) string {
	if w == 0 {
		if v != 0 {
			return "true"
		}
		return "false"
	}
	if w%4 == 0 {
		return fmt.Sprintf("#x%0*x", w/4, v)
	}
	return fmt.Sprintf("#b%0*b", w, v)
}

func sortStr(w int) string {
	if w == 0 {
		return "Bool"
	}
	return fmt.Sprintf("(_ BitVec %d)", w)
}

// Short returns a bounded human readable rendering for reports.
func (t *Term) Short() string {
	var sb strings.Builder
	t.short(&sb, 4)
	return sb.String()
}

func (t *Term) short(sb *strings.Builder, depth int) {
	switch t.Op {
	case OpConst:
		if t.W == 0 {
			sb.WriteString(constStr(0, t.Val))
		} else {
			fmt.Fprintf(sb, "%d", signExt(t.Val, t.W))
		}
		return
	case OpVar:
		sb.WriteString(t.Name)
		return
	}
	if depth == 0 {
		sb.WriteString("…")
		return
	}
	name := opNames[t.Op]
	switch t.Op {
	case OpExtract:
		name = fmt.Sprintf("extract[%d:%d]", t.Hi, t.Lo)
	case OpZExt:
		name = fmt.Sprintf("zext%d", t.W)
	case OpSExt:
		name = fmt.Sprintf("sext%d", t.W)
	case OpRaw:
		name = "raw:" + t.Name
	}
	sb.WriteString("(" + name)
	for _, a := range t.Args {
		sb.WriteString(" ")
		a.short(sb, depth-1)
	}
	sb.WriteString(")")
}

var _ = bits.Len64
