package main

// Concrete evaluation of terms under a model: lets the executor skip the
// solver for the branch side that the last model already witnesses.

type evalCtx struct {
	vals map[string]uint64
	memo map[int]evalRes
}

type evalRes struct {
	v  uint64
	ok bool
}

func (ts *TermStore) eval(t *Term, c *evalCtx) (uint64, bool) {
	switch t.Op {
	case OpConst:
		return t.Val, true
	case OpVar:
		v, ok := c.vals[t.Name]
		return v & maskB(t.W), ok
	}
	if r, ok := c.memo[t.ID]; ok {
		return r.v, r.ok
	}
	v, ok := ts.eval1(t, c)
	c.memo[t.ID] = evalRes{v, ok}
	return v, ok
}

func maskB(w int) uint64 {
	if w == 0 {
		return 1
	}
	return mask(w)
}

func (ts *TermStore) eval1(t *Term, c *evalCtx) (uint64, bool) {
	if t.Op == OpRaw {
		return 0, false
	}
	var a [3]uint64
	for i, x := range t.Args {
		v, ok := ts.eval(x, c)
		if !ok {
			return 0, false
		}
		if i < 3 {
			a[i] = v
		}
	}
	b2u := func(b bool) uint64 {
		if b {
			return 1
		}
		return 0
	}
	switch t.Op {
	case OpNot:
		return a[0] ^ 1, true
	case OpAnd:
		return a[0] & a[1], true
	case OpOr:
		return a[0] | a[1], true
	case OpEq:
		return b2u(a[0] == a[1]), true
	case OpIte:
		if a[0] != 0 {
			return a[1], true
		}
		return a[2], true
	case OpExtract:
		return (a[0] >> uint(t.Lo)) & mask(t.W), true
	case OpZExt:
		return a[0], true
	case OpSExt:
		return uint64(signExt(a[0], t.Args[0].W)) & mask(t.W), true
	case OpConcat:
		return (a[0]<<uint(t.Args[1].W) | a[1]) & mask(t.W), true
	case OpBNot:
		return ^a[0] & mask(t.W), true
	case OpNeg:
		return -a[0] & mask(t.W), true
	case OpULT:
		return b2u(a[0] < a[1]), true
	case OpULE:
		return b2u(a[0] <= a[1]), true
	case OpSLT:
		w := t.Args[0].W
		return b2u(signExt(a[0], w) < signExt(a[1], w)), true
	case OpSLE:
		w := t.Args[0].W
		return b2u(signExt(a[0], w) <= signExt(a[1], w)), true
	}
	// binary bit-vector ops: reuse the constant folder
	x := ts.Const(t.W, a[0])
	y := ts.Const(t.W, a[1])
	r := ts.bin(t.Op, x, y)
	if !r.IsConst() {
		return 0, false
	}
	return r.Val, true
}
