package main

import (
	"fmt"
	"go/types"

	"golang.org/x/tools/go/ssa"
)

// Value is one of: *Term (ints, bools, floats-as-bits), Ptr, UPtr, Str,
// SliceV, Iface, *StructV, *ArrayV, *FuncV, Tuple.
type Value interface{}

type ObjKind uint8

const (
	KHeap ObjKind = iota
	KStack
	KGlobal
	KConst // string literal data etc. (frozen)
	KRType // runtime type descriptor for RT
	KHMap  // runtime map header
	KNative
	KBox // interface box
)

func (k ObjKind) String() string {
	return [...]string{"heap", "stack", "global", "const", "rtype", "hmap", "native", "box"}[k]
}

type Object struct {
	ID       int
	Kind     ObjKind
	T        types.Type // allocation type (nil = untyped bytes)
	Size     int64
	B        []*Term         // bytes
	P        map[int64]Value // pointer-word shadow: Ptr, UPtr, *FuncV
	Frozen   bool
	Name     string
	RT       types.Type  // KRType
	Map      *MapData    // KHMap
	Native   interface{} // KNative
	Err      *ErrData    // error objects created by stubs
	Sym      *symNode    // symbolic type descriptor (C15)
	Unseeded bool
	Global   *ssa.Global // for KGlobal objects
	Owned    bool        // C12: allocated by / handed to the operation under test
	Tag      string      // provenance tag (input buffer, block buffer, bank...)
	ptrOff   map[int64]bool
	ptrOK    bool
	boolOff  map[int64]bool
	boolOK   bool
}

type MapData struct {
	T       *types.Map
	Entries []*MapEntry
}

type MapEntry struct {
	Key  Value
	Elem *Object // holds one value of the elem type
}

type ErrData struct {
	Name  string
	Wraps []Value // Iface values
}

type Ptr struct {
	Obj *Object
	Off int64
	Bad *Term // non-nil: a non-pointer bit pattern was read as a pointer
}

func (p Ptr) IsNil() bool { return p.Obj == nil && p.Bad == nil }

func (p Ptr) String() string {
	if p.Bad != nil {
		return "badptr(" + p.Bad.Short() + ")"
	}
	if p.Obj == nil {
		return "nil"
	}
	return fmt.Sprintf("&obj%d(%s %s)+%d", p.Obj.ID, p.Obj.Kind, p.Obj.Name, p.Off)
}

// UPtr is a uintptr that still carries pointer provenance.
type UPtr struct{ P Ptr }

type Str struct {
	P   Ptr
	Len int64
}

type SliceV struct {
	P   Ptr
	Len int64
	Cap int64
}

type Iface struct {
	T types.Type // dynamic type; nil for the nil interface
	V Value
}

type StructV struct{ F []Value }
type ArrayV struct{ E []Value }

type FuncV struct {
	Fn   *ssa.Function
	Bind []Value
}

type Tuple []Value

func under(t types.Type) types.Type {
	for {
		switch tt := t.(type) {
		case *types.Named:
			t = tt.Underlying()
		case *types.Alias:
			t = types.Unalias(tt)
		default:
			return t.Underlying()
		}
	}
}

func isUnsigned(t types.Type) bool {
	b, ok := under(t).(*types.Basic)
	return ok && b.Info()&types.IsUnsigned != 0
}

func isFloat(t types.Type) bool {
	b, ok := under(t).(*types.Basic)
	return ok && b.Info()&types.IsFloat != 0
}

func isInteger(t types.Type) bool {
	b, ok := under(t).(*types.Basic)
	return ok && b.Info()&types.IsInteger != 0
}

func isBoolean(t types.Type) bool {
	b, ok := under(t).(*types.Basic)
	return ok && b.Info()&types.IsBoolean != 0
}

func isString(t types.Type) bool {
	b, ok := under(t).(*types.Basic)
	return ok && b.Info()&types.IsString != 0
}

func isUnsafePointer(t types.Type) bool {
	b, ok := under(t).(*types.Basic)
	return ok && b.Kind() == types.UnsafePointer
}

// pointerShaped reports whether a value of type t is stored directly in the
// data word of an interface.
func pointerShaped(t types.Type) bool {
	switch u := under(t).(type) {
	case *types.Pointer, *types.Map, *types.Chan, *types.Signature:
		return true
	case *types.Basic:
		return u.Kind() == types.UnsafePointer
	case *types.Struct:
		return u.NumFields() == 1 && pointerShaped(u.Field(0).Type())
	case *types.Array:
		return u.Len() == 1 && pointerShaped(u.Elem())
	}
	return false
}

func bitWidth(sizes types.Sizes, t types.Type) int {
	return int(sizes.Sizeof(t)) * 8
}
