package main

// Abstract model of time.Time following the documented contract.
//
// Layout (the real one for values without a monotonic reading):
//   wall = nanoseconds within the second, ext = seconds since 0001-01-01 UTC,
//   loc  = nil for UTC, otherwise a *time.Location object carrying a fixed
//   offset term.
// time.Date and the calendar accessors (Date, Year, Month, Day, YearDay,
// Weekday, Clock, ...) are exact: timecal.go computes the proleptic Gregorian
// calendar as bit-vector terms for years within +-1,000,000.

import (
	"go/types"
	gotime "time"

	"golang.org/x/tools/go/ssa"
)

const absToUnix = 62135596800

const timePreamble = "(declare-fun verif_days ((_ BitVec 64) (_ BitVec 64)) (_ BitVec 64))"

type dateFields struct {
	f   [7]*Term // y m d h mi s ns
	off *Term
}

func registerTimeIntrinsics() {
	intrinsicTable["time.Date"] = inTimeDate
	intrinsicTable["time.Unix"] = inTimeUnix
	intrinsicTable["time.FixedZone"] = inTimeFixedZone
	intrinsicTable["(time.Time).UTC"] = inTimeUTC
	intrinsicTable["(time.Time).Unix"] = inTimeUnixSec
	intrinsicTable["(time.Time).UnixNano"] = inTimeUnixNano
	intrinsicTable["(time.Time).UnixMicro"] = inTimeUnixMicro
	intrinsicTable["(time.Time).UnixMilli"] = inTimeUnixMilli
	intrinsicTable["(time.Time).Nanosecond"] = inTimeNanosecond
	intrinsicTable["(time.Time).IsZero"] = inTimeIsZero
	intrinsicTable["(*time.Time).IsZero"] = inTimeIsZeroPtr
	intrinsicTable["(time.Time).Equal"] = inTimeEqual
	intrinsicTable["(time.Time).Zone"] = inTimeZone
	intrinsicTable["(time.Time).Location"] = inTimeLocation
	intrinsicTable["(time.Time).Format"] = inTimeFormat
	registerCalendarIntrinsics()
}

func (r *Run) utcLoc() *Object {
	if r.utc == nil {
		t := r.namedType("time", "Location")
		r.utc = r.newObject(t, KNative, "time.utcLoc")
		r.utc.Owned = true
		r.utc.Native = r.ts.Const(64, 0)
	}
	return r.utc
}

func (r *Run) localLoc() *Object {
	if r.local == nil {
		t := r.namedType("time", "Location")
		r.local = r.newObject(t, KNative, "time.localLoc")
		r.local.Owned = true
	}
	return r.local
}

func (r *Run) locOffset(p Ptr) *Term {
	if p.IsNil() {
		return r.ts.Const(64, 0)
	}
	if p.Obj == nil {
		r.fail("bad-pointer", "invalid *time.Location", "")
	}
	off, ok := p.Obj.Native.(*Term)
	if !ok {
		r.engineFail("offset of %s is not modelled", p.Obj.Name)
	}
	return off
}

func (r *Run) timeParts(v Value) (wall, ext *Term, loc Ptr) {
	sv := v.(*StructV)
	return sv.F[0].(*Term), sv.F[1].(*Term), r.asPtr(sv.F[2])
}

func (r *Run) mkTime(wall, ext *Term, loc Ptr) Value {
	if loc.Obj != nil && loc.Obj == r.utc {
		loc = Ptr{}
	}
	return &StructV{F: []Value{wall, ext, loc}}
}

func daysToMonth(y, m int64) int64 {
	return gotime.Date(int(y), gotime.Month(m), 1, 0, 0, 0, 0, gotime.UTC).Unix()/86400 + 719162
}

// normNsec splits an arbitrary nanosecond count into (carry seconds, nsec).
func (r *Run) normNsec(ns *Term) (*Term, *Term) {
	ts := r.ts
	lo := ts.SLE(ts.Const(64, 0), ns)
	hi := ts.SLT(ns, ts.Const(64, 1000000000))
	if r.branch(ts.And(lo, hi)) {
		return ts.Const(64, 0), ns
	}
	q := r.freshVar("nsq", 64)
	rem := r.freshVar("nsr", 64)
	r.assume(ts.SLE(ts.Const(64, 0), rem))
	r.assume(ts.SLT(rem, ts.Const(64, 1000000000)))
	r.assume(ts.SLE(ts.Const(64, uint64(0xFFFFFFFDDA3E82FB)), q)) // -9223372037
	r.assume(ts.SLE(q, ts.Const(64, 9223372036)))
	r.assume(ts.Eq(ns, ts.Add(ts.Mul(q, ts.Const(64, 1000000000)), rem)))
	return q, rem
}

func inTimeDate(r *Run, fn *ssa.Function, args []Value) Value {
	ts := r.ts
	var f [7]*Term
	for i := 0; i < 7; i++ {
		f[i] = args[i].(*Term)
	}
	loc := r.asPtr(args[7])
	if loc.IsNil() {
		r.fail("panic", "time: missing Location in call to Date", "")
	}
	off := r.locOffset(loc)
	days := r.daysBeforeMonth(f[0], f[1])
	carry, nsec := r.normNsec(f[6])
	d := ts.Add(days, ts.Sub(f[2], ts.Const(64, 1)))
	abs := ts.Mul(d, ts.Const(64, 86400))
	abs = ts.Add(abs, ts.Mul(f[3], ts.Const(64, 3600)))
	abs = ts.Add(abs, ts.Mul(f[4], ts.Const(64, 60)))
	abs = ts.Add(abs, f[5])
	abs = ts.Add(abs, carry)
	abs = ts.Sub(abs, off)
	res := r.mkTime(nsec, abs, loc)
	r.dates[[2]int{nsec.ID, abs.ID}] = &dateFields{f: f, off: off}
	return res
}

func inTimeUnix(r *Run, fn *ssa.Function, args []Value) Value {
	ts := r.ts
	sec := args[0].(*Term)
	carry, nsec := r.normNsec(args[1].(*Term))
	ext := ts.Add(ts.Add(sec, carry), ts.Const(64, absToUnix))
	return r.mkTime(nsec, ext, Ptr{Obj: r.localLoc()})
}

func inTimeFixedZone(r *Run, fn *ssa.Function, args []Value) Value {
	t := r.namedType("time", "Location")
	o := r.newObject(t, KNative, "time.FixedZone")
	o.Native = args[1].(*Term)
	return Ptr{Obj: o}
}

func inTimeUTC(r *Run, fn *ssa.Function, args []Value) Value {
	w, e, _ := r.timeParts(args[0])
	return r.mkTime(w, e, Ptr{})
}

func inTimeUnixSec(r *Run, fn *ssa.Function, args []Value) Value {
	_, e, _ := r.timeParts(args[0])
	return r.ts.Sub(e, r.ts.Const(64, absToUnix))
}

func inTimeUnixNano(r *Run, fn *ssa.Function, args []Value) Value {
	w, e, _ := r.timeParts(args[0])
	ts := r.ts
	return ts.Add(ts.Mul(ts.Sub(e, ts.Const(64, absToUnix)), ts.Const(64, 1000000000)), w)
}

func inTimeUnixMicro(r *Run, fn *ssa.Function, args []Value) Value {
	w, e, _ := r.timeParts(args[0])
	ts := r.ts
	return ts.Add(ts.Mul(ts.Sub(e, ts.Const(64, absToUnix)), ts.Const(64, 1000000)), ts.SDiv(w, ts.Const(64, 1000)))
}

func inTimeUnixMilli(r *Run, fn *ssa.Function, args []Value) Value {
	w, e, _ := r.timeParts(args[0])
	ts := r.ts
	return ts.Add(ts.Mul(ts.Sub(e, ts.Const(64, absToUnix)), ts.Const(64, 1000)), ts.SDiv(w, ts.Const(64, 1000000)))
}

func inTimeNanosecond(r *Run, fn *ssa.Function, args []Value) Value {
	w, _, _ := r.timeParts(args[0])
	return w
}

func inTimeIsZero(r *Run, fn *ssa.Function, args []Value) Value {
	w, e, _ := r.timeParts(args[0])
	ts := r.ts
	return ts.And(ts.Eq(w, ts.Const(64, 0)), ts.Eq(e, ts.Const(64, 0)))
}

func inTimeIsZeroPtr(r *Run, fn *ssa.Function, args []Value) Value {
	p := r.asPtr(args[0])
	t := r.namedType("time", "Time")
	return inTimeIsZero(r, fn, []Value{r.loadT(p, t)})
}

func inTimeEqual(r *Run, fn *ssa.Function, args []Value) Value {
	w1, e1, _ := r.timeParts(args[0])
	w2, e2, _ := r.timeParts(args[1])
	ts := r.ts
	return ts.And(ts.Eq(w1, w2), ts.Eq(e1, e2))
}

func inTimeZone(r *Run, fn *ssa.Function, args []Value) Value {
	_, _, loc := r.timeParts(args[0])
	return Tuple{r.strLit(""), r.locOffset(loc)}
}

func inTimeLocation(r *Run, fn *ssa.Function, args []Value) Value {
	_, _, loc := r.timeParts(args[0])
	if loc.IsNil() {
		return Ptr{Obj: r.utcLoc()}
	}
	return loc
}

var _ = types.Typ

// Time.Format is not modelled; a harness binds the text of a time it built
// (verifBindFormat) and Format returns that text. Natively the real Format runs.
func inTimeFormat(r *Run, fn *ssa.Function, args []Value) Value {
	w, e, _ := r.timeParts(args[0])
	if s, ok := r.formats[[2]int{w.ID, e.ID}]; ok {
		return s
	}
	r.engineFail("Time.Format of a time whose text form was not bound by the harness")
	return nil
}
