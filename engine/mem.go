package main

// Byte-granular object memory with a pointer-word shadow.

import (
	"fmt"
	"go/types"
)

func (r *Run) newObject(t types.Type, kind ObjKind, name string) *Object {
	var size int64
	if t != nil {
		size = r.eng.sizes.Sizeof(t)
	}
	o := r.newRaw(size, kind, name)
	o.T = t
	return o
}

func (r *Run) newRaw(size int64, kind ObjKind, name string) *Object {
	if size < 0 || size > 1<<22 {
		r.engineFail("object of size %d", size)
	}
	r.objs++
	o := &Object{ID: r.objs, Kind: kind, Size: size, Name: name}
	o.B = make([]*Term, size)
	z := r.ts.Const(8, 0)
	for i := range o.B {
		o.B[i] = z
	}
	if r.monitor {
		o.Owned = true
	}
	return o
}

func (r *Run) newArrayObject(elem types.Type, n int64, kind ObjKind, name string) *Object {
	return r.newObject(types.NewArray(elem, n), kind, name)
}

// ptrOffsets computes the offsets of pointer words according to the
// allocation type.
func (r *Run) ptrOffsets(o *Object) map[int64]bool {
	if o.ptrOK {
		return o.ptrOff
	}
	o.ptrOK = true
	o.ptrOff = map[int64]bool{}
	if o.T != nil {
		r.collectPtrOffsets(o.T, 0, o.ptrOff)
	}
	return o.ptrOff
}

func (r *Run) collectPtrOffsets(t types.Type, base int64, out map[int64]bool) {
	switch u := under(t).(type) {
	case *types.Basic:
		switch {
		case u.Kind() == types.UnsafePointer:
			out[base] = true
		case u.Info()&types.IsString != 0:
			out[base] = true
		}
	case *types.Pointer, *types.Map, *types.Chan, *types.Signature:
		out[base] = true
	case *types.Slice:
		out[base] = true
	case *types.Interface:
		out[base] = true
		out[base+8] = true
	case *types.Struct:
		offs := r.eng.fieldOffsets(u)
		for i := 0; i < u.NumFields(); i++ {
			r.collectPtrOffsets(u.Field(i).Type(), base+offs[i], out)
		}
	case *types.Array:
		es := r.eng.sizes.Sizeof(u.Elem())
		if es == 0 {
			return
		}
		// only bother if the element has pointers
		tmp := map[int64]bool{}
		r.collectPtrOffsets(u.Elem(), 0, tmp)
		if len(tmp) == 0 {
			return
		}
		for i := int64(0); i < u.Len(); i++ {
			for o := range tmp {
				out[base+i*es+o] = true
			}
		}
	}
}

// boolOffsets: offsets of bytes whose allocation type is bool. A Go bool holds
// 0 or 1; any other bit pattern is not a value of the type (it is truthy in a
// branch and unequal to true).
func (r *Run) boolOffsets(o *Object) map[int64]bool {
	if o.boolOK {
		return o.boolOff
	}
	o.boolOK = true
	if o.T != nil {
		out := map[int64]bool{}
		r.collectBoolOffsets(o.T, 0, out)
		if len(out) > 0 {
			o.boolOff = out
		}
	}
	return o.boolOff
}

func (r *Run) collectBoolOffsets(t types.Type, base int64, out map[int64]bool) {
	switch u := under(t).(type) {
	case *types.Basic:
		if u.Info()&types.IsBoolean != 0 {
			out[base] = true
		}
	case *types.Struct:
		offs := r.eng.fieldOffsets(u)
		for i := 0; i < u.NumFields(); i++ {
			r.collectBoolOffsets(u.Field(i).Type(), base+offs[i], out)
		}
	case *types.Array:
		es := r.eng.sizes.Sizeof(u.Elem())
		if es == 0 || u.Len() > 4096 {
			return
		}
		tmp := map[int64]bool{}
		r.collectBoolOffsets(u.Elem(), 0, tmp)
		for i := int64(0); i < u.Len() && len(tmp) > 0; i++ {
			for o := range tmp {
				out[base+i*es+o] = true
			}
		}
	}
}

func isBoolByte(t *Term) bool {
	if t.IsConst() {
		return t.Val <= 1
	}
	if t.Op == OpIte && len(t.Args) == 3 {
		return isBoolByte(t.Args[1]) && isBoolByte(t.Args[2])
	}
	return false
}

func (r *Run) memEvent(kind, detail string) {
	if !r.strict || r.inPrefix() {
		return
	}
	r.flush()
	vec, ok := r.witness("heap-typing")
	if !ok {
		return
	}
	r.addFinding("heap-typing", kind, detail, vec)
}

func (r *Run) checkAccess(p Ptr, n int64, write bool) {
	if n == 0 {
		return
	}
	if p.Bad != nil {
		r.fail("bad-pointer", "dereference of non-pointer bits", p.String())
	}
	if p.Obj == nil {
		r.fail("nil-deref", "nil pointer dereference", "")
	}
	if p.Obj.Unseeded {
		r.initForeign(p.Obj)
	}
	if p.Off < 0 || p.Off+n > p.Obj.Size {
		r.fail("oob", fmt.Sprintf("access [%d,%d) outside object of size %d", p.Off, p.Off+n, p.Obj.Size),
			fmt.Sprintf("%s type=%v write=%v", p.String(), p.Obj.T, write))
	}
	if write {
		if p.Obj.Frozen {
			r.fail("write-frozen", "store into read-only object", p.String())
		}
		if r.monitor && !p.Obj.Owned && !r.atomicOp {
			r.monitorWrite(p)
		}
	}
}

func (r *Run) monitorWrite(p Ptr) {
	if r.inPrefix() {
		return
	}
	// a write to a shared object is fine only while a lock is held that
	// guards it (globals guarded by their mutex are registered in lockset
	// handling); everything else is a finding.
	if r.guardHeld(p.Obj) {
		return
	}
	r.flush()
	vec, ok := r.witness("shared-write")
	if !ok {
		return
	}
	r.addFinding("shared-write", "store into shared object without its lock", p.String(), vec)
}

// loadBytes returns n byte terms; scalar read of pointer words yields fresh
// unconstrained bytes (and a heap-typing event).
func (r *Run) loadBytes(p Ptr, n int64) []*Term {
	r.checkAccess(p, n, false)
	out := make([]*Term, n)
	o := p.Obj
	for i := int64(0); i < n; i++ {
		out[i] = o.B[p.Off+i]
	}
	if len(o.P) > 0 {
		for off := range o.P {
			if off < p.Off+n && off+8 > p.Off {
				r.memEvent("scalar-read-of-pointer-word", fmt.Sprintf("%s+%d", o.Name, off))
				for i := int64(0); i < n; i++ {
					a := p.Off + i
					if a >= off && a < off+8 {
						out[i] = r.freshVar("ptrbits", 8)
					}
				}
			}
		}
	}
	return out
}

func (r *Run) storeBytes(p Ptr, bs []*Term) {
	n := int64(len(bs))
	r.checkAccess(p, n, true)
	o := p.Obj
	if len(o.P) > 0 {
		for off := range o.P {
			if off < p.Off+n && off+8 > p.Off {
				delete(o.P, off)
			}
		}
	}
	if r.strict && o.T != nil {
		po := r.ptrOffsets(o)
		for off := range po {
			if off < p.Off+n && off+8 > p.Off {
				// storing zero bytes (nil) is fine
				allZero := true
				for _, b := range bs {
					if !(b.IsConst() && b.Val == 0) {
						allZero = false
					}
				}
				if !allZero {
					r.memEvent("scalar-into-pointer-word", fmt.Sprintf("obj%d(%v)+%d", o.ID, o.T, off))
				}
				break
			}
		}
	}
	if r.strict && o.T != nil && !r.inPrefix() {
		if bo := r.boolOffsets(o); bo != nil {
			for i := int64(0); i < n; i++ {
				if bo[p.Off+i] && !isBoolByte(bs[i]) {
					r.check(r.ts.ULE(bs[i], r.ts.Const(8, 1)), "heap-typing", "byte other than 0 or 1 stored into a bool",
						fmt.Sprintf("obj%d(%v)+%d", o.ID, o.T, p.Off+i))
				}
			}
		}
	}
	for i := int64(0); i < n; i++ {
		o.B[p.Off+i] = bs[i]
	}
}

func (r *Run) loadInt(p Ptr, nbytes int64) *Term {
	bs := r.loadBytes(p, nbytes)
	return r.ts.FromBytes(bs)
}

func (r *Run) storeInt(p Ptr, t *Term) {
	r.storeBytes(p, r.ts.ToBytes(t))
}

// loadWord reads a pointer-shaped word.
func (r *Run) loadWord(p Ptr) Value {
	r.checkAccess(p, 8, false)
	o := p.Obj
	if v, ok := o.P[p.Off]; ok {
		return v
	}
	// misaligned overlap with a pointer word?
	for off := range o.P {
		if off < p.Off+8 && off+8 > p.Off {
			r.memEvent("misaligned-pointer-read", fmt.Sprintf("%s+%d", o.Name, p.Off))
			return Ptr{Bad: r.freshVar("badptr", 64)}
		}
	}
	bits := r.ts.FromBytes(o.B[p.Off : p.Off+8])
	if bits.IsConst() && bits.Val == 0 {
		return Ptr{}
	}
	r.memEvent("pointer-read-of-scalar-word", fmt.Sprintf("obj%d(%v)+%d", o.ID, o.T, p.Off))
	// a symbolic bit pattern: nil iff zero. Decide.
	if r.branch(r.ts.Eq(bits, r.ts.Const(64, 0))) {
		return Ptr{}
	}
	return Ptr{Bad: bits}
}

func (r *Run) storeWord(p Ptr, v Value) {
	r.checkAccess(p, 8, true)
	o := p.Obj
	// clear overlapping shadows
	for off := range o.P {
		if off != p.Off && off < p.Off+8 && off+8 > p.Off {
			delete(o.P, off)
		}
	}
	isNil := false
	switch x := v.(type) {
	case Ptr:
		if x.Bad != nil {
			// store the raw bits back
			delete(o.P, p.Off)
			bs := r.ts.ToBytes(x.Bad)
			copy(o.B[p.Off:p.Off+8], bs)
			return
		}
		isNil = x.Obj == nil
	case *FuncV:
		isNil = x == nil
	case UPtr:
		isNil = x.P.IsNil()
	case nil:
		isNil = true
	case *Term:
		// plain integer into a pointer-typed slot (uintptr fields)
		delete(o.P, p.Off)
		copy(o.B[p.Off:p.Off+8], r.ts.ToBytes(x))
		return
	default:
		r.engineFail("storeWord: unsupported value %T", v)
	}
	z := r.ts.Const(8, 0)
	if isNil {
		delete(o.P, p.Off)
		for i := int64(0); i < 8; i++ {
			o.B[p.Off+i] = z
		}
		return
	}
	if r.strict && o.T != nil {
		if !r.ptrOffsets(o)[p.Off] {
			r.memEvent("pointer-into-scalar-word", fmt.Sprintf("obj%d(%v kind=%s)+%d <- %v", o.ID, o.T, o.Kind, p.Off, v))
		}
	}
	if o.P == nil {
		o.P = map[int64]Value{}
	}
	o.P[p.Off] = v
	pb := r.ts.Var("ptrbyte", 8)
	for i := int64(0); i < 8; i++ {
		o.B[p.Off+i] = pb
	}
}

// ---------- typed access ----------

func (r *Run) zeroValue(t types.Type) Value {
	switch u := under(t).(type) {
	case *types.Basic:
		switch {
		case u.Info()&types.IsBoolean != 0:
			return r.ts.False
		case u.Info()&types.IsString != 0:
			return Str{}
		case u.Kind() == types.UnsafePointer:
			return Ptr{}
		case u.Kind() == types.UntypedNil:
			return Ptr{}
		case u.Info()&(types.IsInteger|types.IsFloat) != 0:
			return r.ts.Const(bitWidth(r.eng.sizes, u), 0)
		case u.Info()&types.IsComplex != 0:
			w := bitWidth(r.eng.sizes, u) / 2
			return &ArrayV{E: []Value{r.ts.Const(w, 0), r.ts.Const(w, 0)}}
		}
	case *types.Pointer, *types.Map, *types.Chan:
		return Ptr{}
	case *types.Signature:
		return (*FuncV)(nil)
	case *types.Slice:
		return SliceV{}
	case *types.Interface:
		return Iface{}
	case *types.Struct:
		sv := &StructV{F: make([]Value, u.NumFields())}
		for i := range sv.F {
			sv.F[i] = r.zeroValue(u.Field(i).Type())
		}
		return sv
	case *types.Array:
		av := &ArrayV{E: make([]Value, u.Len())}
		for i := range av.E {
			av.E[i] = r.zeroValue(u.Elem())
		}
		return av
	case *types.Tuple:
		tv := make(Tuple, u.Len())
		for i := range tv {
			tv[i] = r.zeroValue(u.At(i).Type())
		}
		return tv
	}
	r.engineFail("zeroValue: unsupported type %v", t)
	return nil
}

func (r *Run) loadT(p Ptr, t types.Type) Value {
	switch u := under(t).(type) {
	case *types.Basic:
		switch {
		case u.Info()&types.IsBoolean != 0:
			b := r.loadBytes(p, 1)[0]
			return r.ts.Ne(b, r.ts.Const(8, 0))
		case u.Info()&types.IsString != 0:
			pv := r.asPtr(r.loadWord(p))
			l := r.loadInt(Ptr{Obj: p.Obj, Off: p.Off + 8}, 8)
			n := r.concretizeSigned(l, "string length")
			return Str{P: pv, Len: n}
		case u.Kind() == types.UnsafePointer:
			return r.asPtr(r.loadWord(p))
		case u.Kind() == types.Uintptr:
			// may hold a provenance-carrying value
			r.checkAccess(p, 8, false)
			if v, ok := p.Obj.P[p.Off]; ok {
				switch x := v.(type) {
				case UPtr:
					return x
				case Ptr:
					return UPtr{x}
				}
			}
			return r.loadInt(p, 8)
		case u.Info()&(types.IsInteger|types.IsFloat) != 0:
			return r.loadInt(p, r.eng.sizes.Sizeof(u))
		case u.Info()&types.IsComplex != 0:
			h := r.eng.sizes.Sizeof(u) / 2
			return &ArrayV{E: []Value{r.loadInt(p, h), r.loadInt(Ptr{Obj: p.Obj, Off: p.Off + h}, h)}}
		}
	case *types.Pointer, *types.Map, *types.Chan:
		return r.asPtr(r.loadWord(p))
	case *types.Signature:
		v := r.loadWord(p)
		switch x := v.(type) {
		case *FuncV:
			return x
		case Ptr:
			if x.IsNil() {
				return (*FuncV)(nil)
			}
		}
		r.engineFail("load of func value found %T", v)
	case *types.Slice:
		pv := r.asPtr(r.loadWord(p))
		l := r.concretizeSigned(r.loadInt(Ptr{Obj: p.Obj, Off: p.Off + 8}, 8), "slice len")
		c := r.concretizeSigned(r.loadInt(Ptr{Obj: p.Obj, Off: p.Off + 16}, 8), "slice cap")
		return SliceV{P: pv, Len: l, Cap: c}
	case *types.Interface:
		tw := r.asPtr(r.loadWord(p))
		if tw.IsNil() {
			return Iface{}
		}
		if tw.Obj == nil || tw.Obj.Kind != KRType {
			r.fail("bad-interface", "interface type word is not a type descriptor", tw.String())
		}
		dt := tw.Obj.RT
		dp := Ptr{Obj: p.Obj, Off: p.Off + 8}
		if pointerShaped(dt) {
			return Iface{T: dt, V: r.wordAs(r.loadWord(dp), dt)}
		}
		box := r.asPtr(r.loadWord(dp))
		if r.eng.sizes.Sizeof(dt) == 0 {
			return Iface{T: dt, V: r.zeroValue(dt)}
		}
		return Iface{T: dt, V: r.loadT(box, dt)}
	case *types.Struct:
		offs := r.eng.fieldOffsets(u)
		sv := &StructV{F: make([]Value, u.NumFields())}
		for i := range sv.F {
			sv.F[i] = r.loadT(Ptr{Obj: p.Obj, Off: p.Off + offs[i], Bad: p.Bad}, u.Field(i).Type())
		}
		if len(sv.F) == 0 {
			r.checkAccess(p, 0, false)
		}
		return sv
	case *types.Array:
		es := r.eng.sizes.Sizeof(u.Elem())
		av := &ArrayV{E: make([]Value, u.Len())}
		for i := range av.E {
			av.E[i] = r.loadT(Ptr{Obj: p.Obj, Off: p.Off + int64(i)*es, Bad: p.Bad}, u.Elem())
		}
		return av
	}
	r.engineFail("loadT: unsupported type %v", t)
	return nil
}

// wordAs converts a loaded pointer word to the register form of type t.
func (r *Run) wordAs(v Value, t types.Type) Value {
	switch u := under(t).(type) {
	case *types.Signature:
		if f, ok := v.(*FuncV); ok {
			return f
		}
		if p, ok := v.(Ptr); ok && p.IsNil() {
			return (*FuncV)(nil)
		}
	case *types.Struct:
		return &StructV{F: []Value{r.wordAs(v, u.Field(0).Type())}}
	case *types.Array:
		return &ArrayV{E: []Value{r.wordAs(v, u.Elem())}}
	default:
		return r.asPtr(v)
	}
	r.engineFail("wordAs: %T as %v", v, t)
	return nil
}

func (r *Run) asPtr(v Value) Ptr {
	switch x := v.(type) {
	case Ptr:
		return x
	case UPtr:
		return x.P
	case nil:
		return Ptr{}
	case *FuncV:
		if x == nil {
			return Ptr{}
		}
	case *Term:
		if x.IsConst() && x.Val == 0 {
			return Ptr{}
		}
		return Ptr{Bad: x}
	}
	r.engineFail("asPtr: %T", v)
	return Ptr{}
}

func (r *Run) storeT(p Ptr, t types.Type, v Value) {
	switch u := under(t).(type) {
	case *types.Basic:
		switch {
		case u.Info()&types.IsBoolean != 0:
			b := v.(*Term)
			r.storeBytes(p, []*Term{r.ts.BoolToBV(b, 8)})
			return
		case u.Info()&types.IsString != 0:
			s := v.(Str)
			r.storeWord(p, s.P)
			r.storeInt(Ptr{Obj: p.Obj, Off: p.Off + 8}, r.ts.Const(64, uint64(s.Len)))
			return
		case u.Kind() == types.UnsafePointer:
			r.storeWord(p, v)
			return
		case u.Kind() == types.Uintptr:
			switch x := v.(type) {
			case UPtr:
				r.storeWord(p, x)
				return
			}
			r.storeInt(p, v.(*Term))
			return
		case u.Info()&(types.IsInteger|types.IsFloat) != 0:
			tv, ok := v.(*Term)
			if !ok {
				r.engineFail("storeT: %T into %v", v, t)
			}
			if int64(tv.W) != 8*r.eng.sizes.Sizeof(u) {
				r.engineFail("storeT: width %d into %v", tv.W, t)
			}
			r.storeInt(p, tv)
			return
		case u.Info()&types.IsComplex != 0:
			av := v.(*ArrayV)
			h := r.eng.sizes.Sizeof(u) / 2
			r.storeInt(p, av.E[0].(*Term))
			r.storeInt(Ptr{Obj: p.Obj, Off: p.Off + h}, av.E[1].(*Term))
			return
		}
	case *types.Pointer, *types.Map, *types.Chan:
		r.storeWord(p, v)
		return
	case *types.Signature:
		if f, ok := v.(*FuncV); ok && f == nil {
			r.storeWord(p, Ptr{})
		} else {
			r.storeWord(p, v)
		}
		return
	case *types.Slice:
		s := v.(SliceV)
		r.storeWord(p, s.P)
		r.storeInt(Ptr{Obj: p.Obj, Off: p.Off + 8}, r.ts.Const(64, uint64(s.Len)))
		r.storeInt(Ptr{Obj: p.Obj, Off: p.Off + 16}, r.ts.Const(64, uint64(s.Cap)))
		return
	case *types.Interface:
		i := v.(Iface)
		dp := Ptr{Obj: p.Obj, Off: p.Off + 8}
		if i.T == nil {
			r.storeWord(p, Ptr{})
			r.storeWord(dp, Ptr{})
			return
		}
		r.storeWord(p, Ptr{Obj: r.rtypeObj(i.T)})
		if pointerShaped(i.T) {
			r.storeWord(dp, r.firstWord(i.V))
			return
		}
		box := r.newObject(i.T, KBox, "box")
		if box.Size > 0 {
			r.storeT(Ptr{Obj: box}, i.T, i.V)
		}
		box.Frozen = true
		r.storeWord(dp, Ptr{Obj: box})
		return
	case *types.Struct:
		sv, ok := v.(*StructV)
		if !ok {
			r.engineFail("storeT: %T into struct %v", v, t)
		}
		offs := r.eng.fieldOffsets(u)
		for i := range sv.F {
			r.storeT(Ptr{Obj: p.Obj, Off: p.Off + offs[i], Bad: p.Bad}, u.Field(i).Type(), sv.F[i])
		}
		return
	case *types.Array:
		av := v.(*ArrayV)
		es := r.eng.sizes.Sizeof(u.Elem())
		for i := range av.E {
			r.storeT(Ptr{Obj: p.Obj, Off: p.Off + int64(i)*es, Bad: p.Bad}, u.Elem(), av.E[i])
		}
		return
	}
	r.engineFail("storeT: unsupported type %v", t)
}

// firstWord unwraps single-field structs/arrays down to the pointer word.
func (r *Run) firstWord(v Value) Value {
	switch x := v.(type) {
	case *StructV:
		return r.firstWord(x.F[0])
	case *ArrayV:
		return r.firstWord(x.E[0])
	}
	return v
}

// copyMem copies n bytes including pointer shadows (memmove semantics).
func (r *Run) copyMem(dst, src Ptr, n int64) {
	if n == 0 {
		return
	}
	r.checkAccess(src, n, false)
	r.checkAccess(dst, n, true)
	tmpB := make([]*Term, n)
	copy(tmpB, src.Obj.B[src.Off:src.Off+n])
	tmpP := map[int64]Value{}
	for off, v := range src.Obj.P {
		if off >= src.Off && off+8 <= src.Off+n {
			tmpP[off-src.Off] = v
		} else if off < src.Off+n && off+8 > src.Off {
			r.memEvent("partial-pointer-copy", src.String())
		}
	}
	// clear shadows in destination range
	for off := range dst.Obj.P {
		if off < dst.Off+n && off+8 > dst.Off {
			delete(dst.Obj.P, off)
		}
	}
	if r.strict && dst.Obj.T != nil {
		po := r.ptrOffsets(dst.Obj)
		for off := range tmpP {
			if !po[dst.Off+off] {
				r.memEvent("pointer-into-scalar-word", fmt.Sprintf("copy into obj%d(%v)+%d", dst.Obj.ID, dst.Obj.T, dst.Off+off))
			}
		}
		for off := range po {
			if off >= dst.Off && off+8 <= dst.Off+n {
				if _, ok := tmpP[off-dst.Off]; !ok {
					nz := false
					for i := int64(0); i < 8; i++ {
						b := tmpB[off-dst.Off+i]
						if !(b.IsConst() && b.Val == 0) {
							nz = true
						}
					}
					if nz {
						r.memEvent("scalar-into-pointer-word", fmt.Sprintf("copy into obj%d(%v)+%d", dst.Obj.ID, dst.Obj.T, off))
					}
				}
			}
		}
	}
	copy(dst.Obj.B[dst.Off:dst.Off+n], tmpB)
	if len(tmpP) > 0 && dst.Obj.P == nil {
		dst.Obj.P = map[int64]Value{}
	}
	for off, v := range tmpP {
		dst.Obj.P[dst.Off+off] = v
	}
}

func (r *Run) zeroMem(p Ptr, n int64) {
	if n == 0 {
		return
	}
	r.checkAccess(p, n, true)
	z := r.ts.Const(8, 0)
	for off := range p.Obj.P {
		if off < p.Off+n && off+8 > p.Off {
			delete(p.Obj.P, off)
		}
	}
	for i := int64(0); i < n; i++ {
		p.Obj.B[p.Off+i] = z
	}
}

// ---------- strings ----------

func (r *Run) strLit(s string) Str {
	if len(s) == 0 {
		return Str{}
	}
	if o, ok := r.strLits[s]; ok {
		return Str{P: Ptr{Obj: o}, Len: int64(len(s))}
	}
	o := r.newRaw(int64(len(s)), KConst, "strlit")
	for i := 0; i < len(s); i++ {
		o.B[i] = r.ts.Const(8, uint64(s[i]))
	}
	o.Frozen = true
	o.Owned = true // immutable, never a race
	r.strLits[s] = o
	return Str{P: Ptr{Obj: o}, Len: int64(len(s))}
}

// strBytes returns the byte terms of a string/slice region.
func (r *Run) regionBytes(p Ptr, n int64) []*Term {
	if n == 0 {
		return nil
	}
	return r.loadBytes(p, n)
}

// concreteString returns the Go string if every byte is concrete.
func (r *Run) concreteString(s Str) (string, bool) {
	bs := r.regionBytes(s.P, s.Len)
	out := make([]byte, len(bs))
	for i, b := range bs {
		if !b.IsConst() {
			return "", false
		}
		out[i] = byte(b.Val)
	}
	return string(out), true
}

func (r *Run) mustConcreteString(s Str, what string) string {
	v, ok := r.concreteString(s)
	if !ok {
		r.engineFail("%s: string is not concrete", what)
	}
	return v
}

// initForeign runs, on first use, the initialiser of a package outside the
// repository whose package-level variable is about to be read (tables of
// unicode/utf8, strconv, ...). The package's own dependencies are not
// initialised recursively; if its initialiser needs something the engine
// cannot execute, the path is inconclusive.
func (r *Run) initForeign(o *Object) {
	g := o.Global
	if g == nil || g.Pkg == nil {
		r.engineFail("read of foreign global %s whose initialisation is not modelled", o.Name)
	}
	pkg := g.Pkg
	if r.initOK[pkg] {
		r.engineFail("foreign global %s is still uninitialised after running %s.init", o.Name, pkg.Pkg.Path())
	}
	r.initOK[pkg] = true
	for g2, o2 := range r.globals {
		if g2.Pkg == pkg {
			o2.Unseeded = false
		}
	}
	init := pkg.Func("init")
	if init == nil {
		return
	}
	mon, strict := r.monitor, r.strict
	r.monitor, r.strict = false, false
	saveFrame, saveDepth := r.frame, r.depth
	r.callFn(init, nil, nil, 0)
	r.frame, r.depth = saveFrame, saveDepth
	r.monitor, r.strict = mon, strict
	// globals materialised during init are initialised by definition
	for g2, o2 := range r.globals {
		if g2.Pkg == pkg {
			o2.Unseeded = false
		}
	}
}
