package main

// One long-lived SMT solver process driven over a pipe with push/pop.

import (
	"bufio"
	"fmt"
	"io"
	"os"
	"os/exec"
	"strconv"
	"strings"
	"time"
)

type SatResult int

const (
	Unsat SatResult = iota
	Sat
	Unknown
)

func (r SatResult) String() string {
	return [...]string{"unsat", "sat", "unknown"}[r]
}

type SolverStats struct {
	Queries  int
	SatN     int
	UnsatN   int
	UnknownN int
	Errors   int
	Time     time.Duration
}

type Solver struct {
	kind   string
	cmd    *exec.Cmd
	in     io.WriteCloser
	out    *bufio.Reader
	scopes []map[int]bool // term ids / var names defined per push level
	vars   []map[string]bool
	Stats  SolverStats
	log    io.Writer
	sawErr bool
	dead   bool
	hardMs int // a query still running after this long is abandoned (the solver process is killed)
}

func solverArgv(kind string, timeoutMs int) []string {
	switch kind {
	case "z3":
		return []string{"z3", "-in", fmt.Sprintf("-t:%d", timeoutMs)}
	case "z3-new":
		return []string{"z3-new", "-in", fmt.Sprintf("-t:%d", timeoutMs)}
	case "cvc5":
		return []string{"cvc5", "--incremental", "--produce-models", "--lang=smt2", fmt.Sprintf("--tlimit-per=%d", timeoutMs)}
	case "cvc5-bvint":
		return []string{"cvc5", "--incremental", "--produce-models", "--lang=smt2", "--solve-bv-as-int=sum", fmt.Sprintf("--tlimit-per=%d", timeoutMs)}
	}
	panic("unknown solver kind " + kind)
}

func NewSolver(kind string, timeoutMs int, logPath string) (*Solver, error) {
	argv := solverArgv(kind, timeoutMs)
	cmd := exec.Command(argv[0], argv[1:]...)
	in, err := cmd.StdinPipe()
	if err != nil {
		return nil, err
	}
	outp, err := cmd.StdoutPipe()
	if err != nil {
		return nil, err
	}
	cmd.Stderr = os.Stderr
	if err := cmd.Start(); err != nil {
		return nil, err
	}
	s := &Solver{kind: kind, cmd: cmd, in: in, out: bufio.NewReaderSize(outp, 1<<16), hardMs: 3*timeoutMs + 5000}
	if logPath != "" {
		f, err := os.Create(logPath)
		if err == nil {
			s.log = f
		}
	}
	s.scopes = []map[int]bool{{}}
	s.vars = []map[string]bool{{}}
	s.send("(set-option :print-success false)")
	s.send("(set-option :produce-models true)")
	if strings.HasPrefix(kind, "cvc5") {
		s.send("(set-logic ALL)")
	}
	return s, nil
}

func (s *Solver) Close() {
	if s.dead {
		return
	}
	s.dead = true
	s.send("(exit)")
	s.in.Close()
	done := make(chan struct{})
	go func() { s.cmd.Wait(); close(done) }()
	select {
	case <-done:
	case <-time.After(2 * time.Second):
		s.cmd.Process.Kill()
	}
}

func (s *Solver) send(line string) {
	if s.log != nil {
		io.WriteString(s.log, line+"\n")
	}
	io.WriteString(s.in, line+"\n")
}

func (s *Solver) Push() {
	s.send("(push 1)")
	s.scopes = append(s.scopes, map[int]bool{})
	s.vars = append(s.vars, map[string]bool{})
}

func (s *Solver) Pop() {
	s.send("(pop 1)")
	s.scopes = s.scopes[:len(s.scopes)-1]
	s.vars = s.vars[:len(s.vars)-1]
}

func (s *Solver) Depth() int { return len(s.scopes) - 1 }

func (s *Solver) isDefined(id int) bool {
	for _, m := range s.scopes {
		if m[id] {
			return true
		}
	}
	return false
}

func (s *Solver) isDeclared(name string) bool {
	for _, m := range s.vars {
		if m[name] {
			return true
		}
	}
	return false
}

// ref returns the SMT text naming t, emitting definitions as needed.
func (s *Solver) ref(t *Term) string {
	switch t.Op {
	case OpConst:
		return constStr(t.W, t.Val)
	case OpVar:
		if !s.isDeclared(t.Name) {
			s.send(fmt.Sprintf("(declare-const %s %s)", t.Name, sortStr(t.W)))
			s.vars[len(s.vars)-1][t.Name] = true
		}
		return t.Name
	}
	name := "t" + strconv.Itoa(t.ID)
	if s.isDefined(t.ID) {
		return name
	}
	// iterative post-order to avoid deep recursion on long chains
	type frame struct {
		t *Term
		i int
	}
	stack := []frame{{t, 0}}
	for len(stack) > 0 {
		f := &stack[len(stack)-1]
		if f.i < len(f.t.Args) {
			a := f.t.Args[f.i]
			f.i++
			if a.Op != OpConst && a.Op != OpVar && !s.isDefined(a.ID) {
				stack = append(stack, frame{a, 0})
			} else if a.Op == OpVar {
				s.ref(a)
			}
			continue
		}
		cur := f.t
		stack = stack[:len(stack)-1]
		if s.isDefined(cur.ID) {
			continue
		}
		s.send(fmt.Sprintf("(define-fun t%d () %s %s)", cur.ID, sortStr(cur.W), s.body(cur)))
		s.scopes[len(s.scopes)-1][cur.ID] = true
	}
	return name
}

func (s *Solver) argRef(t *Term) string {
	switch t.Op {
	case OpConst:
		return constStr(t.W, t.Val)
	case OpVar:
		return t.Name
	}
	return "t" + strconv.Itoa(t.ID)
}

func (s *Solver) body(t *Term) string {
	switch t.Op {
	case OpExtract:
		return fmt.Sprintf("((_ extract %d %d) %s)", t.Hi, t.Lo, s.argRef(t.Args[0]))
	case OpZExt:
		return fmt.Sprintf("((_ zero_extend %d) %s)", t.W-t.Args[0].W, s.argRef(t.Args[0]))
	case OpSExt:
		return fmt.Sprintf("((_ sign_extend %d) %s)", t.W-t.Args[0].W, s.argRef(t.Args[0]))
	case OpRaw:
		out := t.Name
		for i, a := range t.Args {
			out = strings.ReplaceAll(out, fmt.Sprintf("$%d", i), s.argRef(a))
		}
		return out
	}
	var sb strings.Builder
	sb.WriteString("(" + opNames[t.Op])
	for _, a := range t.Args {
		sb.WriteString(" " + s.argRef(a))
	}
	sb.WriteString(")")
	return sb.String()
}

func (s *Solver) Assert(t *Term) {
	if t.W != 0 {
		panic("Assert: non-bool")
	}
	s.send("(assert " + s.ref(t) + ")")
}

func (s *Solver) readLine() (string, error) {
	line, err := s.out.ReadString('\n')
	return strings.TrimSpace(line), err
}

// CheckSat runs (check-sat) in the current context.
func (s *Solver) CheckSat() SatResult {
	start := time.Now()
	s.send("(check-sat)")
	res := Unknown
	type lineRes struct {
		line string
		err  error
	}
	deadline := time.After(time.Duration(s.hardMs) * time.Millisecond)
	for {
		if s.dead {
			break
		}
		ch := make(chan lineRes, 1)
		go func() {
			l, e := s.readLine()
			ch <- lineRes{l, e}
		}()
		var line string
		var err error
		select {
		case x := <-ch:
			line, err = x.line, x.err
		case <-deadline:
			// the solver ignored its own per-query limit: give the query up
			fmt.Fprintf(os.Stderr, "solver: query exceeded %d ms, abandoned\n", s.hardMs)
			s.cmd.Process.Kill()
			go s.cmd.Wait()
			s.dead = true
			s.sawErr = true
			<-ch
			continue
		}
		if err != nil {
			s.Stats.Errors++
			s.sawErr = true
			s.dead = true
			break
		}
		if line == "" {
			continue
		}
		if strings.HasPrefix(line, "(error") {
			s.Stats.Errors++
			s.sawErr = true
			fmt.Fprintf(os.Stderr, "solver error: %s\n", line)
			continue
		}
		switch line {
		case "sat":
			res = Sat
		case "unsat":
			res = Unsat
		case "unknown", "timeout":
			res = Unknown
		default:
			fmt.Fprintf(os.Stderr, "solver: unexpected line %q\n", line)
			continue
		}
		break
	}
	if s.sawErr {
		// any error makes the answer untrustworthy
		res = Unknown
		s.sawErr = false
	}
	s.Stats.Queries++
	s.Stats.Time += time.Since(start)
	switch res {
	case Sat:
		s.Stats.SatN++
	case Unsat:
		s.Stats.UnsatN++
	default:
		s.Stats.UnknownN++
	}
	return res
}

// CheckSatAssuming checks the current context plus extra, leaving it unchanged.
func (s *Solver) CheckWith(extra ...*Term) SatResult {
	s.Push()
	for _, e := range extra {
		s.Assert(e)
	}
	r := s.CheckSat()
	s.Pop()
	return r
}

// GetValues must be called right after a Sat answer, in the same scope.
func (s *Solver) GetValues(ts []*Term) ([]uint64, error) {
	out := make([]uint64, len(ts))
	var names []string
	var idx []int
	for i, t := range ts {
		if t.IsConst() {
			out[i] = t.Val
			continue
		}
		names = append(names, s.ref(t))
		idx = append(idx, i)
	}
	if len(names) == 0 {
		return out, nil
	}
	s.send("(get-value (" + strings.Join(names, " ") + "))")
	// read balanced s-expression (model construction can run away too: same watchdog)
	var sb strings.Builder
	depth := 0
	started := false
	deadline := time.After(time.Duration(s.hardMs) * time.Millisecond)
	for {
		type lr struct {
			line string
			err  error
		}
		ch := make(chan lr, 1)
		go func() {
			l, e := s.out.ReadString('\n')
			ch <- lr{l, e}
		}()
		var line string
		var err error
		select {
		case x := <-ch:
			line, err = x.line, x.err
		case <-deadline:
			fmt.Fprintf(os.Stderr, "solver: get-value exceeded %d ms, abandoned\n", s.hardMs)
			s.cmd.Process.Kill()
			go s.cmd.Wait()
			s.dead = true
			<-ch
			return nil, fmt.Errorf("solver: get-value abandoned")
		}
		if err != nil {
			s.dead = true
			return nil, err
		}
		if strings.HasPrefix(strings.TrimSpace(line), "(error") {
			return nil, fmt.Errorf("solver: %s", strings.TrimSpace(line))
		}
		for _, c := range line {
			if c == '(' {
				depth++
				started = true
			} else if c == ')' {
				depth--
			}
		}
		sb.WriteString(line)
		if started && depth == 0 {
			break
		}
	}
	vals, err := parseValues(sb.String())
	if err != nil {
		return nil, err
	}
	if len(vals) != len(names) {
		return nil, fmt.Errorf("get-value: got %d values for %d names: %s", len(vals), len(names), sb.String())
	}
	for k, v := range vals {
		out[idx[k]] = v
	}
	return out, nil
}

// parseValues extracts the literal of every (name literal) pair in order.
func parseValues(s string) ([]uint64, error) {
	var out []uint64
	i := 0
	n := len(s)
	// skip outer paren
	for i < n && s[i] != '(' {
		i++
	}
	i++
	for i < n {
		for i < n && s[i] != '(' && s[i] != ')' {
			i++
		}
		if i >= n || s[i] == ')' {
			break
		}
		i++ // (
		// name: may itself be a parenthesised term?  we only pass symbols.
		for i < n && (s[i] == ' ' || s[i] == '\n') {
			i++
		}
		for i < n && s[i] != ' ' && s[i] != '\n' {
			i++
		}
		for i < n && (s[i] == ' ' || s[i] == '\n') {
			i++
		}
		// literal
		j := i
		depth := 0
		for j < n {
			if s[j] == '(' {
				depth++
			} else if s[j] == ')' {
				if depth == 0 {
					break
				}
				depth--
			}
			j++
		}
		lit := strings.TrimSpace(s[i:j])
		v, err := parseLiteral(lit)
		if err != nil {
			return nil, err
		}
		out = append(out, v)
		i = j + 1
	}
	return out, nil
}

func parseLiteral(lit string) (uint64, error) {
	switch {
	case lit == "true":
		return 1, nil
	case lit == "false":
		return 0, nil
	case strings.HasPrefix(lit, "#x"):
		return strconv.ParseUint(lit[2:], 16, 64)
	case strings.HasPrefix(lit, "#b"):
		return strconv.ParseUint(lit[2:], 2, 64)
	case strings.HasPrefix(lit, "(_ bv"):
		f := strings.Fields(lit[5:])
		return strconv.ParseUint(f[0], 10, 64)
	}
	return 0, fmt.Errorf("cannot parse literal %q", lit)
}
