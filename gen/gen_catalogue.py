#!/usr/bin/env python3
"""Generates the type catalogue and per-type harness code:

  harness/avro/zz_verif_gen_cat.go   (package avro: basic kinds)
  harness/null/zz_verif_gen_cat.go   (package null: null.* wrappers, time.Time)

For every catalogue struct type T it emits
  verifFill_<T>(p *T, tag)        a fully symbolic value (bounded shapes)
  verifDatum_<T>(p *T) refDatum    the logical Avro datum the spec assigns to *p
                                   under the documented schema mapping
  verifRT_<W>_<T>(in *W, out *T)   "out is what reading `in` back must give"
                                   (documented normalisations only)
and the harnesses that use them.  The catalogue is independent of /repo's
source, so the generated files are committed; run this script to regenerate.
"""
import os, sys

OUT = os.path.join(os.path.dirname(os.path.abspath(__file__)), "..", "harness")

INTS = ("int", "int16", "int32", "int64")
FLOATS = ("float32", "float64")
NULLS = ("nullint", "nullbool", "nullfloat", "nullstring")


class Ty:
    def __init__(self, kind, elem=None, fields=None, name=None):
        self.kind, self.elem, self.fields, self.name = kind, elem, fields, name

    def go(self):
        k = self.kind
        if k in INTS or k in FLOATS or k in ("bool", "string"):
            return k
        if k == "bytes":
            return "[]byte"
        if k == "ptr":
            return "*" + self.elem.go()
        if k == "slice":
            return "[]" + self.elem.go()
        if k == "map":
            return "map[string]" + self.elem.go()
        if k == "struct":
            return self.name
        if k == "nullint":
            return "null.Int"
        if k == "nullbool":
            return "null.Bool"
        if k == "nullfloat":
            return "null.Float"
        if k == "nullstring":
            return "null.String"
        if k == "time":
            return "time.Time"
        raise ValueError(k)

    def id(self):
        k = self.kind
        if k == "ptr":
            return "P" + self.elem.id()
        if k == "slice":
            return "S" + self.elem.id()
        if k == "map":
            return "M" + self.elem.id()
        if k == "struct":
            return self.name
        return k

    # schema shape under the documented mapping: one of
    # boolean long double string bytes array map record union
    def schema(self):
        k = self.kind
        if k == "bool":
            return "boolean"
        if k in INTS:
            return "long"
        if k in FLOATS:
            return "double"
        if k in ("string", "bytes"):
            return k
        if k == "slice":
            return "array"
        if k == "map":
            return "map"
        if k == "struct":
            return "record"
        if k == "ptr":
            s = self.elem.schema()
            return s if s in ("union", "array", "map") else "union"
        return "union"  # null.*, time


class Field:
    def __init__(self, name, ty, tag="", guard=True):
        self.name, self.ty, self.tag, self.guard = name, ty, tag, guard

    def json_name(self):
        if not self.name[0].isupper():
            return "-"
        t = self.tag
        if t.startswith('bq:"-"'):
            return "-"
        if 'json:"' in t:
            body = t.split('json:"', 1)[1].split('"', 1)[0]
            n = body.split(",")[0]
            if n == "-":
                return "-"
            if n:
                return n
        return self.name

    def omitempty(self):
        if 'json:"' not in self.tag:
            return False
        body = self.tag.split('json:"', 1)[1].split('"', 1)[0]
        return "omitempty" in body.split(",")[1:]


def has_map(t):
    if t.kind == "map":
        return True
    if t.kind in ("ptr", "slice"):
        return has_map(t.elem)
    if t.kind == "struct":
        return any(has_map(f.ty) for f in t.fields)
    return False


def B(k):
    return Ty(k)


def P(t):
    return Ty("ptr", elem=t)


def S(t):
    return Ty("slice", elem=t)


def M(t):
    return Ty("map", elem=t)


class Gen:
    def __init__(self, pkg):
        self.pkg = pkg
        self.av = "" if pkg == "avro" else "avro."
        self.out = []
        self.done = set()
        self.structs = []
        self.guardn = 0

    def w(self, s):
        self.out.append(s)

    def struct(self, name, fields):
        t = Ty("struct", fields=fields, name=name)
        self.structs.append(t)
        lines = ["type %s struct {" % name]
        for i, f in enumerate(fields):
            if f.guard:
                lines.append("\tG%d [2]byte `json:\"-\"`" % i)
            tag = (" `%s`" % f.tag) if f.tag else ""
            lines.append("\t%s %s%s" % (f.name, f.ty.go(), tag))
        lines.append("\tGz [2]byte `json:\"-\"`")
        lines.append("}")
        self.w("\n".join(lines) + "\n")
        return t

    # ---------- fill ----------
    def fill(self, t, nested=False, nilonly=False):
        sfx = ("_n" if nested else "") + ("_z" if nilonly else "")
        key = ("fill", t.id(), sfx)
        name = "verifFill_" + t.id() + sfx
        if key in self.done:
            return name
        self.done.add(key)
        maxlen = "verifMaxLenInner()" if nested else "verifMaxLen()"
        inner = t.kind in ("slice", "map")
        k = t.kind
        body = []
        if k == "bool":
            body.append("*p = verifNondetBool(tag)")
        elif k in ("int", "int64"):
            body.append("*p = %s(verifNarrow(tag))" % k)
        elif k == "int32":
            body.append("*p = int32(verifNarrow(tag))")
        elif k == "int16":
            body.append("*p = verifNondetI16(tag)")
        elif k == "float32":
            body.append("b := verifNondetU32(tag)\n\t*p = *(*float32)(unsafe.Pointer(&b))")
        elif k == "float64":
            body.append("b := verifNondetU64(tag)\n\t*p = *(*float64)(unsafe.Pointer(&b))")
        elif k == "string":
            body.append("*p = verifString(tag, verifChoice(tag+\".len\", verifMaxStr()+1))")
        elif k == "bytes":
            body.append("n := verifChoice(tag+\".len\", verifMaxStr()+1)\n\tif n == 0 && verifChoice(tag+\".nil\", 2) == 1 {\n\t\t*p = nil\n\t\treturn\n\t}\n\t*p = verifBytes(tag, n)")
        elif k == "ptr":
            ef = self.fill(t.elem, nested)
            body.append("if verifChoice(tag+\".nil\", 2) == 1 {\n\t\t*p = nil\n\t\treturn\n\t}\n\t*p = new(%s)\n\t%s(*p, tag+\"*\")" % (t.elem.go(), ef))
        elif k == "slice":
            ef = self.fill(t.elem, True)
            body.append("n := verifChoice(tag+\".len\", MAXLEN+1)\n\tif n == 0 {\n\t\tif verifChoice(tag+\".nil\", 2) == 1 {\n\t\t\t*p = nil\n\t\t} else {\n\t\t\t*p = %s{}\n\t\t}\n\t\treturn\n\t}\n\t*p = make(%s, n)\n\tfor i := 0; i < n; i++ {\n\t\t%s(&(*p)[i], tag+\"[\"+string(rune('0'+i))+\"]\")\n\t}" % (t.go(), t.go(), ef))
        elif k == "map":
            ef = self.fill(t.elem, True)
            body.append("n := verifChoice(tag+\".len\", MAXLEN+1)\n\tif n == 0 {\n\t\tif NILONLY || verifChoice(tag+\".nil\", 2) == 1 {\n\t\t\t*p = nil\n\t\t} else {\n\t\t\t*p = %s{}\n\t\t}\n\t\treturn\n\t}\n\t*p = make(%s, n)\n\tvar prev string\n\tfor i := 0; i < n; i++ {\n\t\tk := verifString(tag+\".k\", 1)\n\t\tif i > 0 {\n\t\t\tverifAssume(k != prev)\n\t\t}\n\t\tprev = k\n\t\tvar v %s\n\t\t%s(&v, tag+\"{\"+string(rune('0'+i))+\"}\")\n\t\t(*p)[k] = v\n\t}" % (t.go(), t.go(), t.elem.go(), ef))
        elif k == "struct":
            for f in t.fields:
                if f.json_name() == "-":
                    continue
                nz = f.omitempty() and f.ty.kind == "map"
                body.append("%s(&p.%s, tag+\".%s\")" % (self.fill(f.ty, nested, nz), f.name, f.name))
        elif k == "nullint":
            body.append("p.Valid = verifNondetBool(tag + \".valid\")\n\tp.Int64 = verifNarrow(tag)")
        elif k == "nullbool":
            body.append("p.Valid = verifNondetBool(tag + \".valid\")\n\tp.Bool = verifNondetBool(tag)")
        elif k == "nullfloat":
            body.append("p.Valid = verifNondetBool(tag + \".valid\")\n\tb := verifNondetU64(tag)\n\tp.Float64 = *(*float64)(unsafe.Pointer(&b))")
        elif k == "nullstring":
            body.append("p.Valid = verifNondetBool(tag + \".valid\")\n\tp.String = verifString(tag, verifChoice(tag+\".len\", verifMaxStr()+1))")
        else:
            raise ValueError(k)
        text = "\n\t".join(body).replace("MAXLEN", maxlen).replace("NILONLY", "true" if nilonly else "false")
        self.w("func %s(p *%s, tag string) {\n\t%s\n}\n" % (name, t.go(), text))
        return name

    # ---------- zero test (omitempty) ----------
    def iszero(self, t, e):
        k = t.kind
        if k == "bool":
            return "!%s" % e
        if k in INTS or k in FLOATS:
            return "%s == 0" % e
        if k in ("string", "bytes", "slice", "map"):
            return "len(%s) == 0" % e
        return None  # structs are never omitted; unions handled elsewhere

    # ---------- datum ----------
    def datum(self, t):
        key = ("datum", t.id())
        name = "verifDatum_" + t.id()
        if key in self.done:
            return name
        self.done.add(key)
        k = t.kind
        b = []
        if k == "bool":
            b.append("return refBool(*p)")
        elif k in INTS:
            b.append("return refLong(int64(*p))")
        elif k == "float32":
            b.append("d := float64(*p)\n\treturn refDouble(*(*uint64)(unsafe.Pointer(&d)))")
        elif k == "float64":
            b.append("return refDouble(*(*uint64)(unsafe.Pointer(p)))")
        elif k == "string":
            b.append("return refStr([]byte(*p))")
        elif k == "bytes":
            b.append("return refStr(*p)")
        elif k == "slice":
            ed = self.datum(t.elem)
            b.append("d := refDatum{K: 'a'}\n\tfor i := range *p {\n\t\td.Items = append(d.Items, %s(&(*p)[i]))\n\t}\n\treturn d" % ed)
        elif k == "map":
            ed = self.datum(t.elem)
            b.append("d := refDatum{K: 'm'}\n\tfor k, v := range *p {\n\t\tv := v\n\t\td.Keys = append(d.Keys, []byte(k))\n\t\td.Items = append(d.Items, %s(&v))\n\t}\n\treturn d" % ed)
        elif k == "ptr":
            ed = self.datum(t.elem)
            es = t.elem.schema()
            if es == "array":
                b.append("if *p == nil {\n\t\treturn refDatum{K: 'a'}\n\t}\n\treturn %s(*p)" % ed)
            elif es == "map":
                b.append("if *p == nil {\n\t\treturn refDatum{K: 'm'}\n\t}\n\treturn %s(*p)" % ed)
            elif es == "union":
                b.append("if *p == nil {\n\t\treturn refUnion(0, refNull())\n\t}\n\treturn %s(*p)" % ed)
            else:
                b.append("if *p == nil {\n\t\treturn refUnion(0, refNull())\n\t}\n\treturn refUnion(1, %s(*p))" % ed)
        elif k == "struct":
            b.append("d := refDatum{K: 'r'}")
            for f in t.fields:
                if f.json_name() == "-":
                    continue
                fd = self.datum(f.ty)
                if f.omitempty() and f.ty.schema() != "union":
                    z = self.iszero(f.ty, "p." + f.name)
                    if z is None:
                        b.append("d.Items = append(d.Items, refUnion(1, %s(&p.%s)))" % (fd, f.name))
                    else:
                        b.append("if %s {\n\t\td.Items = append(d.Items, refUnion(0, refNull()))\n\t} else {\n\t\td.Items = append(d.Items, refUnion(1, %s(&p.%s)))\n\t}" % (z, fd, f.name))
                else:
                    b.append("d.Items = append(d.Items, %s(&p.%s))" % (fd, f.name))
            b.append("return d")
        elif k == "nullint":
            b.append("if !p.Valid {\n\t\treturn refUnion(0, refNull())\n\t}\n\treturn refUnion(1, refLong(p.Int64))")
        elif k == "nullbool":
            b.append("if !p.Valid {\n\t\treturn refUnion(0, refNull())\n\t}\n\treturn refUnion(1, refBool(p.Bool))")
        elif k == "nullfloat":
            b.append("if !p.Valid {\n\t\treturn refUnion(0, refNull())\n\t}\n\treturn refUnion(1, refDouble(*(*uint64)(unsafe.Pointer(&p.Float64))))")
        elif k == "nullstring":
            b.append("if !p.Valid {\n\t\treturn refUnion(0, refNull())\n\t}\n\treturn refUnion(1, refStr([]byte(p.String)))")
        else:
            raise ValueError(k)
        self.w("func %s(p *%s) refDatum {\n\t%s\n}\n" % (name, t.go(), "\n\t".join(b)))
        return name

    # ---------- round-trip relation: out is what reading `in` back gives ----------
    def rt(self, wt, tt, omit=False):
        key = ("rt", wt.id(), tt.id(), omit)
        name = "verifRT_%s_%s%s" % (wt.id(), tt.id(), "_o" if omit else "")
        if key in self.done:
            return name
        self.done.add(key)
        wk, tk = wt.kind, tt.kind
        b = []
        if wk == "bool" and tk == "bool":
            b.append("return *in == *out")
        elif wk in INTS and tk in INTS:
            b.append("return int64(*in) == int64(*out)")
        elif wk == "float64" and tk == "float64":
            e = "*(*uint64)(unsafe.Pointer(in)) == *(*uint64)(unsafe.Pointer(out))"
            if omit:
                e = "verifOr(%s, verifAnd(*in == 0, *out == 0))" % e
            b.append("return " + e)
        elif wk == "float32" and tk in FLOATS:
            if tk == "float32":
                e = "verifOr(*(*uint32)(unsafe.Pointer(in)) == *(*uint32)(unsafe.Pointer(out)), verifAnd(*in != *in, *out != *out))"
            else:
                e = "verifOr(float64(*in) == *out, verifAnd(*in != *in, *out != *out))"
            if omit:
                e = "verifOr(%s, verifAnd(*in == 0, *out == 0))" % e
            b.append("return " + e)
        elif wk == "string" and tk == "string":
            b.append("return verifStrEq(*in, *out)")
        elif wk == "bytes" and tk == "bytes":
            b.append("return refBytesEq(*in, *out)")
        elif wk == "slice" and tk == "slice":
            er = self.rt(wt.elem, tt.elem)
            b.append("if len(*in) != len(*out) {\n\t\treturn false\n\t}\n\tacc := true\n\tfor i := range *in {\n\t\tacc = verifAnd(acc, %s(&(*in)[i], &(*out)[i]))\n\t}\n\treturn acc" % er)
        elif wk == "map" and tk == "map":
            er = self.rt(wt.elem, tt.elem)
            b.append("if len(*in) != len(*out) {\n\t\treturn false\n\t}\n\tacc := true\n\tfor k, v := range *in {\n\t\tv := v\n\t\tw, ok := (*out)[k]\n\t\tif !ok {\n\t\t\treturn false\n\t\t}\n\t\tacc = verifAnd(acc, %s(&v, &w))\n\t}\n\treturn acc" % er)
        elif wk == "ptr" and tk == "ptr":
            er = self.rt(wt.elem, tt.elem)
            if wt.elem.schema() in ("array", "map"):
                # nil pointer to a collection is identified with the empty collection
                b.append("var ez %s\n\tvar oz %s\n\ti, o := &ez, &oz\n\tif *in != nil {\n\t\ti = *in\n\t}\n\tif *out != nil {\n\t\to = *out\n\t}\n\treturn %s(i, o)" % (wt.elem.go(), tt.elem.go(), er))
            else:
                b.append("if *in == nil || *out == nil {\n\t\treturn *in == nil && *out == nil\n\t}\n\treturn %s(*in, *out)" % er)
        elif wk == "struct" and tk == "struct":
            b.append("acc := true")
            tf = {f.json_name(): f for f in tt.fields if f.json_name() != "-"}
            for f in wt.fields:
                jn = f.json_name()
                if jn == "-" or jn not in tf:
                    continue
                g = tf[jn]
                b.append("acc = verifAnd(acc, %s(&in.%s, &out.%s))" % (self.rt(f.ty, g.ty, f.omitempty()), f.name, g.name))
            b.append("return acc")
        elif wk == "nullint" and tk == "nullint":
            b.append("if !in.Valid {\n\t\treturn !out.Valid\n\t}\n\treturn verifAnd(out.Valid, in.Int64 == out.Int64)")
        elif wk == "nullbool" and tk == "nullbool":
            b.append("if !in.Valid {\n\t\treturn !out.Valid\n\t}\n\treturn verifAnd(out.Valid, in.Bool == out.Bool)")
        elif wk == "nullfloat" and tk == "nullfloat":
            b.append("if !in.Valid {\n\t\treturn !out.Valid\n\t}\n\treturn verifAnd(out.Valid, *(*uint64)(unsafe.Pointer(&in.Float64)) == *(*uint64)(unsafe.Pointer(&out.Float64)))")
        elif wk == "nullstring" and tk == "nullstring":
            b.append("if !in.Valid {\n\t\treturn !out.Valid\n\t}\n\treturn verifAnd(out.Valid, verifStrEq(in.String, out.String))")
        else:
            raise ValueError("rt %s %s" % (wk, tk))
        self.w("func %s(in *%s, out *%s) bool {\n\t%s\n}\n" % (name, wt.go(), tt.go(), "\n\t".join(b)))
        return name

    # guards of a struct value are intact
    def guards(self, t):
        name = "verifGuards_" + t.id()
        key = ("guards", t.id())
        if key in self.done:
            return name
        self.done.add(key)
        b = ["acc := true"]
        for i, f in enumerate(t.fields):
            if f.guard:
                b.append("acc = verifAnd(acc, p.G%d == [2]byte{0xA5, 0x5A})" % i)
        b.append("acc = verifAnd(acc, p.Gz == [2]byte{0xA5, 0x5A})")
        b.append("return acc")
        self.w("func %s(p *%s) bool {\n\t%s\n}\n" % (name, t.go(), "\n\t".join(b)))
        sname = "verifSetGuards_" + t.id()
        b = []
        for i, f in enumerate(t.fields):
            if f.guard:
                b.append("p.G%d = [2]byte{0xA5, 0x5A}" % i)
        b.append("p.Gz = [2]byte{0xA5, 0x5A}")
        self.w("func %s(p *%s) {\n\t%s\n}\n" % (sname, t.go(), "\n\t".join(b)))
        return name

    # ---------- harnesses ----------
    def harness_rt(self, t, group):
        """C01 + C02 on one type: write a symbolic value, reference-decode the
        bytes (C02), read them back (C01)."""
        fill, datum, rt = self.fill(t), self.datum(t), self.rt(t, t)
        self.guards(t)
        av = self.av
        n = t.name
        self.w("""func verifHarness_C0102_%(group)s_%(n)s() {
	s, err := %(av)sSchemaForType(%(n)s{})
	verifAssert(err == nil, "C01:schema-generated")
	if err != nil {
		return
	}
	c, err := s.Codec(%(n)s{})
	verifAssert(err == nil, "C01:codec-built")
	if err != nil {
		return
	}
	var in %(n)s
	%(fill)s(&in, "v")
	verifSetGuards_%(n)s(&in)
	w := %(av)sNewWriteBuf(nil)
	c.Write(w, unsafe.Pointer(&in))
	enc := w.Bytes()
	%(obs)s
	// C02: an independent reader, given only the schema and the bytes
	d, n, ok := refDecode(&s, enc, 0)
	verifAssert(ok, "C02:reference-reader-accepts")
	if ok {
		verifAssert(n == len(enc), "C02:no-bytes-left-over")
		want := %(datum)s(&in)
		verifAssert(refEq(&d, &want), "C02:reference-reader-sees-same-data")
	}
	// C01: the library reads its own output back
	var out %(n)s
	verifSetGuards_%(n)s(&out)
	r := %(av)sNewReadBuf(enc)
	err = c.Read(r, unsafe.Pointer(&out))
	verifAssert(err == nil, "C01:read-ok")
	if err == nil {
		verifAssert(r.Len() == 0, "C01:read-consumes-all")
		verifAssert(%(rt)s(&in, &out), "C01:value-round-trips")
		verifAssert(verifGuards_%(n)s(&out), "C05:guards-intact")
	}
	verifReach("end")
}
""" % dict(group=group, n=n, av=av, fill=fill, datum=datum, rt=rt,
           obs='verifObserveInt("enclen", len(enc))' if has_map(t) else 'verifObserveBytes("enc", enc)'))

    def header(self, imports):
        return "// Code generated by gen/gen_catalogue.py; DO NOT EDIT.\n\npackage %s\n\nimport (\n%s)\n\n" % (
            self.pkg, "".join("\t%s\n" % i for i in imports))


COMMON_HELPERS = """
// narrow integers: 1- and 2-byte varints (the full width of every primitive is
// covered alone in C17 and in the wide single-field records)
func verifNarrow(tag string) int64 {
	v := verifNondetI64(tag)
	verifAssume(v >= -8192 && v <= 8191)
	return v
}

func verifMaxLen() int {
	if verifThorough() {
		return 3
	}
	return 2
}

// collections nested inside collections
func verifMaxLenInner() int {
	if verifThorough() {
		return 2
	}
	return 1
}

func verifMaxStr() int { return 2 }

func verifStrEq(a, b string) bool {
	if len(a) != len(b) {
		return false
	}
	acc := true
	for i := 0; i < len(a); i++ {
		acc = verifAnd(acc, a[i] == b[i])
	}
	return acc
}
"""


def catalogue_avro(g):
    leafs = ["bool", "int", "int16", "int32", "int64", "float32", "float64", "string", "bytes"]
    types = []
    # depth 1: every leaf kind as plain field, omitempty field, pointer, slice, map value
    for k in leafs:
        K = k.capitalize()
        types.append(("leaf", g.struct("verifL_%s" % K, [Field("A", B(k)), Field("Z", B("int64"), 'json:"z"')])))
        types.append(("omit", g.struct("verifO_%s" % K, [Field("A", B(k), 'json:"a,omitempty"'), Field("Z", B("int64"))])))
        types.append(("ptr", g.struct("verifP_%s" % K, [Field("A", P(B(k))), Field("Z", B("int64"))])))
        if k != "bytes":
            types.append(("slice", g.struct("verifS_%s" % K, [Field("A", S(B(k))), Field("Z", B("int64"))])))
        types.append(("map", g.struct("verifM_%s" % K, [Field("A", M(B(k))), Field("Z", B("int64"))])))
    # tagging variants
    types.append(("tags", g.struct("verifTags1", [
        Field("A", B("int64"), 'json:"-"'), Field("B", B("string"), 'json:"bee"'), Field("c", B("int64")),
        Field("D", B("int64"), 'bq:"-"'), Field("E", B("bool"), 'json:",omitempty"'), Field("F", B("int32"), 'json:"f,string,omitempty"')])))
    # depth 2 shapes
    inner = g.struct("verifInner", [Field("X", B("int64")), Field("Y", B("string"), 'json:"y,omitempty"')])
    types.append(("nest", g.struct("verifN_Struct", [Field("A", inner), Field("Z", B("int64"))])))
    types.append(("nest", g.struct("verifN_PtrStruct", [Field("A", P(inner)), Field("Z", B("int64"))])))
    types.append(("nest", g.struct("verifN_SliceStruct", [Field("A", S(inner)), Field("Z", B("int64"))])))
    types.append(("nest", g.struct("verifN_MapStruct", [Field("A", M(inner)), Field("Z", B("int64"))])))
    types.append(("nest", g.struct("verifN_OmitStruct", [Field("A", inner, 'json:"a,omitempty"'), Field("Z", B("int64"))])))
    types.append(("deep", g.struct("verifD_PtrPtr", [Field("A", P(P(B("int64")))), Field("Z", B("int64"))])))
    types.append(("deep", g.struct("verifD_PtrSlice", [Field("A", P(S(B("int64")))), Field("Z", B("int64"))])))
    types.append(("deep", g.struct("verifD_PtrMap", [Field("A", P(M(B("int64")))), Field("Z", B("int64"))])))
    types.append(("deep", g.struct("verifD_SlicePtr", [Field("A", S(P(B("int64")))), Field("Z", B("int64"))])))
    types.append(("deep", g.struct("verifD_MapPtr", [Field("A", M(P(B("int64")))), Field("Z", B("int64"))])))
    types.append(("deep", g.struct("verifD_SliceSlice", [Field("A", S(S(B("int32")))), Field("Z", B("int64"))])))
    types.append(("deep", g.struct("verifD_MapSlice", [Field("A", M(S(B("int64")))), Field("Z", B("int64"))])))
    types.append(("deep", g.struct("verifD_MapMap", [Field("A", M(M(B("int64")))), Field("Z", B("int64"))])))
    types.append(("deep", g.struct("verifD_SliceMap", [Field("A", S(M(B("string")))), Field("Z", B("int64"))])))
    types.append(("deep", g.struct("verifD_OmitPtr", [Field("A", P(B("string")), 'json:"a,omitempty"'), Field("Z", B("int64"))])))
    types.append(("deep", g.struct("verifD_OmitSlice", [Field("A", S(B("string")), 'json:"a,omitempty"'), Field("Z", B("int64"))])))
    types.append(("deep", g.struct("verifD_OmitMap", [Field("A", M(B("int64")), 'json:"a,omitempty"'), Field("Z", B("int64"))])))
    types.append(("deep", g.struct("verifD_PtrBytes", [Field("A", P(B("bytes"))), Field("Z", B("int64"))])))
    types.append(("deep", g.struct("verifD_SliceBytes", [Field("A", S(B("bytes"))), Field("Z", B("int64"))])))
    return types


def catalogue_null(g):
    types = []
    for k in NULLS:
        K = k[4:].capitalize()
        types.append(("nullleaf", g.struct("verifL_Null%s" % K, [Field("A", B(k)), Field("Z", B("int64"))])))
        types.append(("nullptr", g.struct("verifP_Null%s" % K, [Field("A", P(B(k))), Field("Z", B("int64"))])))
        types.append(("nullomit", g.struct("verifO_Null%s" % K, [Field("A", B(k), 'json:"a,omitempty"'), Field("Z", B("int64"))])))
        types.append(("nullslice", g.struct("verifS_Null%s" % K, [Field("A", S(B(k))), Field("Z", B("int64"))])))
        types.append(("nullmap", g.struct("verifM_Null%s" % K, [Field("A", M(B(k))), Field("Z", B("int64"))])))
    return types


def main():
    ga = Gen("avro")
    ta = catalogue_avro(ga)
    for group, t in ta:
        ga.harness_rt(t, group)
    src = ga.header(['"unsafe"']) + COMMON_HELPERS + "\n".join(ga.out)
    open(os.path.join(OUT, "avro", "zz_verif_gen_cat.go"), "w").write(src)

    gn = Gen("null")
    tn = catalogue_null(gn)
    for group, t in tn:
        gn.harness_rt(t, group)
    src = gn.header(['"unsafe"', '', '"github.com/philpearl/avro"', '"github.com/unravelin/null/v5"']) + COMMON_HELPERS + "\n".join(gn.out)
    src = src.replace("func verifHarness_", "func init() { RegisterCodecs() }\n\nfunc verifHarness_", 1)
    open(os.path.join(OUT, "null", "zz_verif_gen_cat.go"), "w").write(src)
    print("avro types:", len(ta), "null types:", len(tn))


if __name__ == "__main__":
    main()
