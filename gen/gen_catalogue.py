#!/usr/bin/env python3
"""Generates the type catalogue and the per-type harness code:

  harness/avro/zz_verif_gen_cat.go   (package avro: basic kinds)
  harness/null/zz_verif_gen_cat.go   (package null: null.* wrappers)

Vocabulary
  Ty   a Go type of the catalogue            Sd   an Avro schema shape
  natural(ty)      the schema the documented mapping assigns to ty
  fill(ty)         Go code: a fully symbolic value of ty (bounded shapes)
  datum_under(sd, ty)  Go code: the logical Avro datum the specification assigns
                   to a Go value of ty written under schema sd
  rt(wt, tt)       Go code: "a value of tt is what reading a wt value gives"
                   (documented normalisations only; wt != tt for C03/C04)
The catalogue is independent of /repo's source, so the generated files are
committed; run this script to regenerate them.
"""
import os

OUT = os.path.join(os.path.dirname(os.path.abspath(__file__)), "..", "harness")

INTS = ("int", "int16", "int32", "int64")
FLOATS = ("float32", "float64")
NULLS = ("nullint", "nullbool", "nullfloat", "nullstring")
CUSTOM = {"customS": "verifCustomS", "customI": "verifCustomI", "customL": "verifCustomL", "customT": "verifCustomT"}
INT_RANGE = {"int16": (-32768, 32767), "int32": (-2147483648, 2147483647)}


# ----------------------------------------------------------------- Go types
class Ty:
    def __init__(self, kind, elem=None, fields=None, name=None, n=0, gotext=None):
        self.kind, self.elem, self.fields, self.name, self.n, self.gotext = kind, elem, fields, name, n, gotext

    def go(self):
        k = self.kind
        if self.gotext:
            return self.gotext
        if k in INTS or k in FLOATS or k in ("bool", "string"):
            return k
        if k == "bytes" or k == "lbytes":
            return "[]byte"
        if k == "lstring":
            return "string"
        if k == "bslice":
            return "[]int64"
        if k == "bpslice":
            return "[]*int64"
        if k == "eslice":
            return "[]verifEmptyRec"
        if k == "fixed":
            return "[%d]byte" % self.n
        if k == "ptr":
            return "*" + self.elem.go()
        if k == "slice":
            return "[]" + self.elem.go()
        if k == "map":
            return "map[string]" + self.elem.go()
        if k == "struct":
            return self.name
        if k in CUSTOM:
            return CUSTOM[k]
        if k == "time":
            return "time.Time"
        if k == "nulltime":
            return "null.Time"
        return {"nullint": "null.Int", "nullbool": "null.Bool", "nullfloat": "null.Float", "nullstring": "null.String"}[k]

    def id(self):
        k = self.kind
        if self.gotext:
            return self.gotext.replace(".", "_")
        if k == "ptr":
            return "P" + self.elem.id()
        if k == "slice":
            return "S" + self.elem.id()
        if k == "map":
            return "M" + self.elem.id()
        if k == "struct":
            return self.name
        if k == "fixed":
            return "fixed%d" % self.n
        return k


class Field:
    def __init__(self, name, ty, tag="", guard=True):
        self.name, self.ty, self.tag, self.guard = name, ty, tag, guard

    def json_name(self):
        if not self.name[0].isupper():
            return "-"
        t = self.tag
        if 'bq:"-"' in t:
            return "-"
        if 'json:"' in t:
            body = t.split('json:"', 1)[1].split('"', 1)[0]
            n = body.split(",")[0]
            if n == "-":
                return "-"
            if n:
                return n
        return self.name

    def omitempty(self):
        if 'json:"' not in self.tag:
            return False
        body = self.tag.split('json:"', 1)[1].split('"', 1)[0]
        return "omitempty" in body.split(",")[1:]


def B(k):
    return Ty(k)


def P(t):
    return Ty("ptr", elem=t)


def S(t):
    return Ty("slice", elem=t)


def M(t):
    return Ty("map", elem=t)


def FX(n):
    return Ty("fixed", n=n)


def has_map(t):
    if t.kind == "map":
        return True
    if t.kind in ("ptr", "slice"):
        return has_map(t.elem)
    if t.kind == "struct":
        return any(has_map(f.ty) for f in t.fields)
    return False


# ------------------------------------------------------------ schema shapes
class Sd:
    def __init__(self, kind, items=None, fields=None, branches=None, size=0, logical="", name=""):
        self.kind, self.items, self.fields, self.branches = kind, items, fields, branches
        self.size, self.logical, self.name = size, logical, name

    def is_nullable_pair(self):
        return self.kind == "union" and len(self.branches) == 2 and any(b.kind == "null" for b in self.branches)

    def null_idx(self):
        return 0 if self.branches[0].kind == "null" else 1

    def lit(self, av):
        """Go literal of the avro.Schema value."""
        k = self.kind
        if k.startswith("bare_"):
            # a composite type name without its attributes (no items / values / size / fields / branches)
            return "%sSchema{Type: \"%s\"}" % (av, k[5:])
        if k == "union":
            return "%sSchema{Type: \"union\", Union: []%sSchema{%s}}" % (av, av, ", ".join(b.lit(av) for b in self.branches))
        if k in ("null", "boolean", "int", "long", "float", "double", "bytes", "string") and not self.logical:
            return "%sSchema{Type: \"%s\"}" % (av, k)
        parts = []
        if self.logical:
            parts.append("LogicalType: \"%s\"" % self.logical)
        if self.name:
            parts.append("Name: \"%s\"" % self.name)
        if k == "fixed":
            parts.append("Size: %d" % self.size)
        if k == "array":
            parts.append("Items: " + self.items.lit(av))
        if k == "map":
            parts.append("Values: " + self.items.lit(av))
        if k == "record":
            parts.append("Fields: []%sSchemaRecordField{%s}" % (av, ", ".join("{Name: \"%s\", Type: %s}" % (n, s.lit(av)) for n, s in self.fields)))
        return "%sSchema{Type: \"%s\", Object: &%sSchemaObject{%s}}" % (av, k, av, ", ".join(parts))

    def lit_ns(self, av):
        """literal of the schema exactly as schemaForType generates it (record name + namespace)"""
        k = self.kind
        if k == "union":
            return "%sSchema{Type: \"union\", Union: []%sSchema{%s}}" % (av, av, ", ".join(b.lit_ns(av) for b in self.branches))
        if k in ("null", "boolean", "int", "long", "float", "double", "bytes", "string"):
            return "%sSchema{Type: \"%s\"}" % (av, k)
        if k == "fixed":
            return "%sSchema{Type: \"fixed\", Object: &%sSchemaObject{Name: \"%s\", Size: %d}}" % (av, av, self.name, self.size)
        if k == "array":
            return "%sSchema{Type: \"array\", Object: &%sSchemaObject{Items: %s}}" % (av, av, self.items.lit_ns(av))
        if k == "map":
            return "%sSchema{Type: \"map\", Object: &%sSchemaObject{Values: %s}}" % (av, av, self.items.lit_ns(av))
        if k == "record":
            fs = ", ".join("{Name: \"%s\", Type: %s}" % (n, s.lit_ns(av)) for n, s in self.fields)
            return "%sSchema{Type: \"record\", Object: &%sSchemaObject{Name: \"%s\", Namespace: \"github.com.philpearl.avro\", Fields: []%sSchemaRecordField{%s}}}" % (av, av, self.name, av, fs)
        raise ValueError(k)

    def swapped(self):
        """null moved to the other position in every nullable pair."""
        k = self.kind
        if k == "union":
            bs = [b.swapped() for b in self.branches]
            if self.is_nullable_pair():
                bs = [bs[1], bs[0]]
            return Sd("union", branches=bs)
        if k in ("array", "map"):
            return Sd(k, items=self.items.swapped())
        if k == "record":
            return Sd(k, fields=[(n, s.swapped()) for n, s in self.fields], name=self.name)
        return self

    def has_kind(self, kind):
        if self.kind == kind:
            return True
        if self.kind == "union":
            return any(b.has_kind(kind) for b in self.branches)
        if self.kind in ("array", "map"):
            return self.items.has_kind(kind)
        if self.kind == "record":
            return any(s.has_kind(kind) for _, s in self.fields)
        return False

    def has_union(self):
        k = self.kind
        if k == "union":
            return True
        if k in ("array", "map"):
            return self.items.has_union()
        if k == "record":
            return any(s.has_union() for _, s in self.fields)
        return False


def U(x):
    return Sd("union", branches=[Sd("null"), x])


def natural(t, omit=False):
    k = t.kind
    if k == "bool":
        s = Sd("boolean")
    elif k in INTS:
        s = Sd("long")
    elif k in FLOATS:
        s = Sd("double")
    elif k in ("string", "bytes"):
        s = Sd(k)
    elif k == "lstring":
        s = Sd("string")
    elif k == "lbytes":
        s = Sd("bytes")
    elif k == "bslice":
        s = Sd("array", items=Sd("long"))
    elif k == "bpslice":
        s = Sd("array", items=U(Sd("long")))
    elif k == "eslice":
        s = Sd("array", items=Sd("record", name="verifEmptyRec", fields=[]))
    elif k == "slice":
        s = Sd("array", items=natural(t.elem))
    elif k == "map":
        s = Sd("map", items=natural(t.elem))
    elif k == "struct":
        s = Sd("record", name=t.name, fields=[(f.json_name(), natural(f.ty, f.omitempty())) for f in t.fields if f.json_name() != "-"])
    elif k == "ptr":
        e = natural(t.elem)
        s = e if e.kind in ("union", "array", "map") else U(e)
    elif k in ("customS", "customI"):
        s = Sd("fixed", size=9, name=k)
    elif k == "customL":
        s = Sd("bytes")
    elif k == "customT":
        s = Sd("string")
    elif k in ("time", "nulltime"):
        s = U(Sd("string"))
    elif k == "nullint":
        s = U(Sd("long"))
    elif k == "nullbool":
        s = U(Sd("boolean"))
    elif k == "nullfloat":
        s = U(Sd("double"))
    elif k == "nullstring":
        s = U(Sd("string"))
    else:
        raise ValueError(k)
    if omit and s.kind != "union":
        s = U(s)
    return s


# ----------------------------------------------------------------- generator
class Gen:
    def __init__(self, pkg):
        self.pkg = pkg
        self.av = "" if pkg == "avro" else "avro."
        self.out = []
        self.done = set()
        self.ndatum = 0

    def w(self, s):
        self.out.append(s)

    def struct(self, name, fields):
        t = Ty("struct", fields=fields, name=name)
        lines = ["type %s struct {" % name]
        for i, f in enumerate(fields):
            if f.guard:
                lines.append("\tG%d [2]byte `json:\"-\"`" % i)
            tag = (" `%s`" % f.tag) if f.tag else ""
            lines.append("\t%s %s%s" % (f.name, f.ty.go(), tag))
        lines.append("\tGz [2]byte `json:\"-\"`")
        lines.append("}")
        self.w("\n".join(lines) + "\n")
        return t

    # ---------- fill ----------
    def fill(self, t, nested=False, nilonly=False, wide=False):
        sfx = ("_n" if nested else "") + ("_z" if nilonly else "") + ("_w" if wide else "")
        key = ("fill", t.id(), sfx)
        name = "verifFill_" + t.id() + sfx
        if key in self.done:
            return name
        self.done.add(key)
        maxlen = "verifMaxLenInner()" if nested else "verifMaxLen()"
        k = t.kind
        body = []
        if k == "bool":
            body.append("*p = verifNondetBool(tag)")
        elif k in ("int", "int64"):
            body.append("*p = %s(%s(tag))" % (t.go(), "verifNondetI64" if wide else "verifNarrow"))
        elif k == "int32":
            body.append("*p = %s" % ("verifNondetI32(tag)" if wide else "int32(verifNarrow(tag))"))
        elif k == "int16":
            body.append("*p = verifNondetI16(tag)")
        elif k == "float32":
            body.append("b := verifNondetU32(tag)\n\t*p = *(*float32)(unsafe.Pointer(&b))")
        elif k == "float64":
            body.append("b := verifNondetU64(tag)\n\t*p = *(*float64)(unsafe.Pointer(&b))")
        elif k == "string":
            body.append("*p = verifString(tag, verifChoice(tag+\".len\", verifMaxStr()+1))")
        elif k == "bytes":
            body.append("n := verifChoice(tag+\".len\", verifMaxStr()+1)\n\tif n == 0 && verifChoice(tag+\".nil\", 2) == 1 {\n\t\t*p = nil\n\t\treturn\n\t}\n\t*p = verifBytes(tag, n)")
        elif k == "lstring":
            body.append("*p = verifString(tag, verifLongLen(tag))")
        elif k == "lbytes":
            body.append("*p = verifBytes(tag, verifLongLen(tag))")
        elif k == "bslice":
            body.append("n := verifLongLen(tag)\n\t*p = make([]int64, n)\n\tfor i := 0; i < n; i++ {\n\t\t(*p)[i] = int64(verifNondetU8(tag) & 0x3f)\n\t}")
        elif k == "bpslice":
            body.append("n := []int{33, 40, 65}[verifChoice(tag+\".len\", 3)]\n\t*p = make([]*int64, n)\n\tfor i := 0; i < n; i++ {\n\t\tv := int64(verifNondetU8(tag) & 0x3f)\n\t\t(*p)[i] = &v\n\t}")
        elif k == "eslice":
            body.append("*p = make([]verifEmptyRec, []int{0, 1, 9, 70}[verifChoice(tag+\".len\", 4)])")
        elif k == "fixed":
            body.append("copy(p[:], verifBytes(tag, %d))" % t.n)
        elif k == "ptr":
            ef = self.fill(t.elem, nested, False, wide)
            body.append("if verifChoice(tag+\".nil\", 2) == 1 {\n\t\t*p = nil\n\t\treturn\n\t}\n\t*p = new(%s)\n\t%s(*p, tag+\"*\")" % (t.elem.go(), ef))
        elif k == "slice":
            ef = self.fill(t.elem, True, False, wide)
            body.append("n := verifChoice(tag+\".len\", MAXLEN+1)\n\tif n == 0 {\n\t\tif verifChoice(tag+\".nil\", 2) == 1 {\n\t\t\t*p = nil\n\t\t} else {\n\t\t\t*p = %s{}\n\t\t}\n\t\treturn\n\t}\n\t*p = make(%s, n)\n\tfor i := 0; i < n; i++ {\n\t\t%s(&(*p)[i], tag+\"[\"+string(rune('0'+i))+\"]\")\n\t}" % (t.go(), t.go(), ef))
        elif k == "map":
            ef = self.fill(t.elem, True, False, wide)
            body.append("n := verifChoice(tag+\".len\", MAXLEN+1)\n\tif n == 0 {\n\t\tif NILONLY || verifChoice(tag+\".nil\", 2) == 1 {\n\t\t\t*p = nil\n\t\t} else {\n\t\t\t*p = %s{}\n\t\t}\n\t\treturn\n\t}\n\t*p = make(%s, n)\n\tvar prev string\n\tfor i := 0; i < n; i++ {\n\t\tk := verifString(tag+\".k\", 1)\n\t\tif i > 0 {\n\t\t\tverifAssume(k != prev)\n\t\t}\n\t\tprev = k\n\t\tvar v %s\n\t\t%s(&v, tag+\"{\"+string(rune('0'+i))+\"}\")\n\t\t(*p)[k] = v\n\t}" % (t.go(), t.go(), t.elem.go(), ef))
        elif k == "struct":
            for f in t.fields:
                if f.json_name() == "-":
                    continue
                nz = f.omitempty() and f.ty.kind == "map"
                body.append("%s(&p.%s, tag+\".%s\")" % (self.fill(f.ty, nested, nz, wide), f.name, f.name))
        elif k == "time":
            body.append("if verifChoice(tag+\".zero\", 2) == 1 {\n\t\t*p = time.Time{}\n\t\treturn\n\t}\n\tverifFillTime(p, tag)")
        elif k == "nulltime":
            body.append("p.Valid = verifNondetBool(tag + \".valid\")\n\tverifFillTime(&p.Time, tag)")
        elif k == "customS":
            body.append("p.A = verifNondetI32(tag + \".A\")\n\tp.B = verifNondetI32(tag + \".B\")")
        elif k == "customI":
            body.append("*p = verifCustomI(verifNondetI64(tag))")
        elif k == "customL":
            body.append("*p = verifCustomL(verifBytes(tag, verifChoice(tag+\".len\", verifMaxStr()+1)))")
        elif k == "customT":
            body.append("*p = verifCustomT(verifString(tag, verifChoice(tag+\".len\", verifMaxStr()+1)))")
        elif k == "nullint":
            body.append("p.Valid = verifNondetBool(tag + \".valid\")\n\tp.Int64 = %s(tag)" % ("verifNondetI64" if wide else "verifNarrow"))
        elif k == "nullbool":
            body.append("p.Valid = verifNondetBool(tag + \".valid\")\n\tp.Bool = verifNondetBool(tag)")
        elif k == "nullfloat":
            body.append("p.Valid = verifNondetBool(tag + \".valid\")\n\tb := verifNondetU64(tag)\n\tp.Float64 = *(*float64)(unsafe.Pointer(&b))")
        elif k == "nullstring":
            body.append("p.Valid = verifNondetBool(tag + \".valid\")\n\tp.String = verifString(tag, verifChoice(tag+\".len\", verifMaxStr()+1))")
        else:
            raise ValueError(k)
        text = "\n\t".join(body).replace("MAXLEN", maxlen).replace("NILONLY", "true" if nilonly else "false")
        self.w("func %s(p *%s, tag string) {\n\t%s\n}\n" % (name, t.go(), text))
        return name

    def iszero(self, t, e):
        k = t.kind
        if k == "bool":
            return "!%s" % e
        if k in INTS or k in FLOATS:
            return "%s == 0" % e
        if k in ("string", "bytes", "slice", "map", "lstring", "lbytes", "bslice", "bpslice", "eslice"):
            return "len(%s) == 0" % e
        return None

    # ---------- datum of a Go value under a schema ----------
    def datum_under(self, sd, t, omit=False):
        """returns the name of func(p *T) refDatum"""
        self.ndatum += 1
        name = "verifDatum%d_%s" % (self.ndatum, t.id())
        k = t.kind
        b = []
        if sd.is_nullable_pair():
            ni = sd.null_idx()
            xi = 1 - ni
            X = sd.branches[xi]
            null = "refUnion(%d, refNull())" % ni
            if k == "ptr":
                if t.elem.kind == "ptr" or t.elem.kind in NULLS or t.elem.kind in ("time", "nulltime"):
                    inner = self.datum_under(sd, t.elem)
                    b.append("if *p == nil {\n\t\treturn %s\n\t}\n\treturn %s(*p)" % (null, inner))
                else:
                    inner = self.datum_under(X, t.elem)
                    b.append("if *p == nil {\n\t\treturn %s\n\t}\n\treturn refUnion(%d, %s(*p))" % (null, xi, inner))
            elif k == "time":
                b.append("if p.IsZero() {\n\t\treturn %s\n\t}\n\treturn refUnion(%d, refStr(verifTimeText(*p)))" % (null, xi))
            elif k == "nulltime":
                b.append("if !p.Valid {\n\t\treturn %s\n\t}\n\treturn refUnion(%d, refStr(verifTimeText(p.Time)))" % (null, xi))
            elif k in NULLS:
                base = {"nullint": ("int64", "Int64"), "nullbool": ("bool", "Bool"), "nullfloat": ("float64", "Float64"), "nullstring": ("string", "String")}[k]
                inner = self.datum_under(X, B(base[0]))
                b.append("if !p.Valid {\n\t\treturn %s\n\t}\n\treturn refUnion(%d, %s(&p.%s))" % (null, xi, inner, base[1]))
            else:
                inner = self.datum_under(X, t)
                z = self.iszero(t, "*p") if omit else None
                if z:
                    b.append("if %s {\n\t\treturn %s\n\t}" % (z, null))
                b.append("return refUnion(%d, %s(p))" % (xi, inner))
        elif sd.kind in ("long", "int"):
            assert k in INTS, (sd.kind, k)
            b.append("return refLong(int64(*p))")
        elif sd.kind == "boolean":
            b.append("return refBool(*p)")
        elif sd.kind == "double":
            if k == "float32":
                b.append("d := float64(*p)\n\treturn refDouble(*(*uint64)(unsafe.Pointer(&d)))")
            else:
                b.append("return refDouble(*(*uint64)(unsafe.Pointer(p)))")
        elif sd.kind == "float":
            if k == "float32":
                b.append("return refFloat(*(*uint32)(unsafe.Pointer(p)))")
            else:
                b.append("f := float32(*p)\n\treturn refFloat(*(*uint32)(unsafe.Pointer(&f)))")
        elif sd.kind == "string" and k != "customT":
            b.append("return refStr([]byte(*p))")
        elif sd.kind == "bytes" and k != "customL":
            b.append("return refStr(*p)")
        elif sd.kind == "array" and k == "bpslice":
            b.append("d := refDatum{K: 'a'}\n\tfor i := range *p {\n\t\td.Items = append(d.Items, refUnion(1, refLong(*(*p)[i])))\n\t}\n\treturn d")
        elif sd.kind == "array" and k == "eslice":
            b.append("d := refDatum{K: 'a'}\n\tfor range *p {\n\t\td.Items = append(d.Items, refDatum{K: 'r'})\n\t}\n\treturn d")
        elif sd.kind == "array" and k == "bslice":
            b.append("d := refDatum{K: 'a'}\n\tfor i := range *p {\n\t\td.Items = append(d.Items, refLong((*p)[i]))\n\t}\n\treturn d")
        elif sd.kind == "fixed" and k == "customS":
            b.append("return refStr(verifMarkBytesS(verifMark, p))")
        elif sd.kind == "fixed" and k == "customI":
            b.append("return refStr(verifMarkBytesI(verifMark, p))")
        elif sd.kind == "bytes" and k == "customL":
            b.append("return refStr(verifMarkBytesL(verifMark, p))")
        elif sd.kind == "string" and k == "customT":
            b.append("return refStr(verifMarkBytesT(verifMark, p))")
        elif sd.kind == "fixed":
            b.append("return refStr(p[:])")
        elif sd.kind == "array":
            if k == "ptr":
                inner = self.datum_under(sd, t.elem)
                b.append("if *p == nil {\n\t\treturn refDatum{K: 'a'}\n\t}\n\treturn %s(*p)" % inner)
            else:
                inner = self.datum_under(sd.items, t.elem)
                b.append("d := refDatum{K: 'a'}\n\tfor i := range *p {\n\t\td.Items = append(d.Items, %s(&(*p)[i]))\n\t}\n\treturn d" % inner)
        elif sd.kind == "map":
            if k == "ptr":
                inner = self.datum_under(sd, t.elem)
                b.append("if *p == nil {\n\t\treturn refDatum{K: 'm'}\n\t}\n\treturn %s(*p)" % inner)
            else:
                inner = self.datum_under(sd.items, t.elem)
                b.append("d := refDatum{K: 'm'}\n\tfor k, v := range *p {\n\t\tv := v\n\t\td.Keys = append(d.Keys, []byte(k))\n\t\td.Items = append(d.Items, %s(&v))\n\t}\n\treturn d" % inner)
        elif sd.kind == "record":
            b.append("d := refDatum{K: 'r'}")
            gf = {f.json_name(): f for f in t.fields if f.json_name() != "-"}
            for n, fs in sd.fields:
                f = gf[n]
                b.append("d.Items = append(d.Items, %s(&p.%s))" % (self.datum_under(fs, f.ty, f.omitempty()), f.name))
            b.append("return d")
        else:
            raise ValueError("datum_under %s %s" % (sd.kind, k))
        self.w("func %s(p *%s) refDatum {\n\t%s\n}\n" % (name, t.go(), "\n\t".join(b)))
        return name

    # ---------- round-trip relation ----------
    def rt(self, wt, tt, omit=False):
        key = ("rt", wt.id(), tt.id(), omit)
        name = "verifRT_%s_%s%s" % (wt.id(), tt.id(), "_o" if omit else "")
        if key in self.done:
            return name
        self.done.add(key)
        wk, tk = wt.kind, tt.kind
        b = []
        wnull = wk == "ptr" or wk in NULLS
        COLL = ("slice", "map", "bslice", "bpslice", "eslice")
        if wk == "ptr" and wt.elem.kind in COLL or tk == "ptr" and tt.elem.kind in COLL:
            # pointer to collection: nil pointer is identified with the empty collection
            we = wt.elem if wk == "ptr" else wt
            te = tt.elem if tk == "ptr" else tt
            er = self.rt(we, te)
            b.append("var ez %s\n\tvar oz %s\n\ti, o := &ez, &oz" % (we.go(), te.go()))
            b.append("if *in != nil {\n\t\ti = *in\n\t}" if wk == "ptr" else "i = in")
            b.append("if *out != nil {\n\t\to = *out\n\t}" if tk == "ptr" else "o = out")
            b.append("return %s(i, o)" % er)
        elif wk == "ptr" and tk == "ptr":
            er = self.rt(wt.elem, tt.elem)
            b.append("if *in == nil || *out == nil {\n\t\treturn *in == nil && *out == nil\n\t}\n\treturn %s(*in, *out)" % er)
        elif wk == "ptr":
            # pointer written, value target: null leaves the zero value
            er = self.rt(wt.elem, tt)
            b.append("if *in == nil {\n\t\tvar z %s\n\t\t_ = z\n\t\treturn %s\n\t}\n\treturn %s(*in, out)" % (tt.go(), self.eqzero(tt, "out", "z"), er))
        elif tk == "ptr":
            er = self.rt(wt, tt.elem)
            if wk in NULLS:
                b.append("if !in.Valid {\n\t\treturn *out == nil\n\t}")
            elif omit and self.iszero(wt, "*in"):
                b.append("if %s {\n\t\treturn *out == nil\n\t}" % self.iszero(wt, "*in"))
            b.append("if *out == nil {\n\t\treturn false\n\t}\n\treturn %s(in, *out)" % er)
        elif wk == "time" and tk == "time":
            b.append("if in.IsZero() {\n\t\treturn out.IsZero()\n\t}\n\treturn verifTimeEq(in, out)")
        elif wk == "nulltime" and tk == "nulltime":
            b.append("if !in.Valid {\n\t\treturn !out.Valid\n\t}\n\treturn verifAnd(out.Valid, verifTimeEq(&in.Time, &out.Time))")
        elif wk == "bool" and tk == "bool":
            b.append("return *in == *out")
        elif wk in INTS and tk in INTS:
            b.append("return int64(*in) == int64(*out)")
        elif wk == "float64" and tk == "float64":
            e = "*(*uint64)(unsafe.Pointer(in)) == *(*uint64)(unsafe.Pointer(out))"
            if omit:
                e = "verifOr(%s, verifAnd(*in == 0, *out == 0))" % e
            b.append("return " + e)
        elif wk == "float32" and tk in FLOATS:
            if tk == "float32":
                e = "verifOr(*(*uint32)(unsafe.Pointer(in)) == *(*uint32)(unsafe.Pointer(out)), verifAnd(*in != *in, *out != *out))"
            else:
                e = "verifOr(float64(*in) == *out, verifAnd(*in != *in, *out != *out))"
            if omit:
                e = "verifOr(%s, verifAnd(*in == 0, *out == 0))" % e
            b.append("return " + e)
        elif wk in ("string", "lstring") and tk == wk:
            b.append("return verifStrEq(*in, *out)")
        elif wk in ("bytes", "lbytes") and tk == wk:
            b.append("return refBytesEq(*in, *out)")
        elif wk == "bpslice" and tk == "bpslice":
            b.append("if len(*in) != len(*out) {\n\t\treturn false\n\t}\n\tacc := true\n\tfor i := range *in {\n\t\tif (*out)[i] == nil {\n\t\t\treturn false\n\t\t}\n\t\tacc = verifAnd(acc, *(*in)[i] == *(*out)[i])\n\t}\n\treturn acc")
        elif wk == "eslice" and tk == "eslice":
            b.append("return len(*in) == len(*out)")
        elif wk == "bslice" and tk == "bslice":
            b.append("if len(*in) != len(*out) {\n\t\treturn false\n\t}\n\tacc := true\n\tfor i := range *in {\n\t\tacc = verifAnd(acc, (*in)[i] == (*out)[i])\n\t}\n\treturn acc")
        elif wk == "fixed" and tk == "fixed":
            b.append("return *in == *out")
        elif wk in ("customS", "customI") and tk == wk:
            b.append("return *in == *out")
        elif wk == "customL" and tk == "customL":
            b.append("return refBytesEq([]byte(*in), []byte(*out))")
        elif wk == "customT" and tk == "customT":
            b.append("return verifStrEq(string(*in), string(*out))")
        elif wk == "slice" and tk == "slice":
            er = self.rt(wt.elem, tt.elem)
            b.append("if len(*in) != len(*out) {\n\t\treturn false\n\t}\n\tacc := true\n\tfor i := range *in {\n\t\tacc = verifAnd(acc, %s(&(*in)[i], &(*out)[i]))\n\t}\n\treturn acc" % er)
        elif wk == "map" and tk == "map":
            er = self.rt(wt.elem, tt.elem)
            b.append("if len(*in) != len(*out) {\n\t\treturn false\n\t}\n\tacc := true\n\tfor k, v := range *in {\n\t\tv := v\n\t\tw, ok := (*out)[k]\n\t\tif !ok {\n\t\t\treturn false\n\t\t}\n\t\tacc = verifAnd(acc, %s(&v, &w))\n\t}\n\treturn acc" % er)
        elif wk == "struct" and tk == "struct":
            b.append("acc := true")
            tf = {f.json_name(): f for f in tt.fields if f.json_name() != "-"}
            for f in wt.fields:
                jn = f.json_name()
                if jn == "-" or jn not in tf:
                    continue
                g = tf[jn]
                b.append("acc = verifAnd(acc, %s(&in.%s, &out.%s))" % (self.rt(f.ty, g.ty, f.omitempty()), f.name, g.name))
            b.append("return acc")
        elif wk in NULLS and tk in NULLS and wk == tk:
            fld = {"nullint": "Int64", "nullbool": "Bool", "nullfloat": "Float64", "nullstring": "String"}[wk]
            if wk == "nullfloat":
                e = "verifOr(*(*uint64)(unsafe.Pointer(&in.Float64)) == *(*uint64)(unsafe.Pointer(&out.Float64)), verifAnd(in.Float64 != in.Float64, out.Float64 != out.Float64))"
            elif wk == "nullstring":
                e = "verifStrEq(in.String, out.String)"
            else:
                e = "in.%s == out.%s" % (fld, fld)
            b.append("if !in.Valid {\n\t\treturn !out.Valid\n\t}\n\treturn verifAnd(out.Valid, %s)" % e)
        elif wk in NULLS:
            # wrapper written, plain value target: null leaves zero
            base = {"nullint": (B("int64"), "Int64"), "nullbool": (B("bool"), "Bool"), "nullfloat": (B("float64"), "Float64"), "nullstring": (B("string"), "String")}[wk]
            er = self.rt(base[0], tt)
            b.append("if !in.Valid {\n\t\tvar z %s\n\t\t_ = z\n\t\treturn %s\n\t}\n\treturn %s(&in.%s, out)" % (tt.go(), self.eqzero(tt, "out", "z"), er, base[1]))
        elif tk in NULLS:
            base = {"nullint": (B("int64"), "Int64"), "nullbool": (B("bool"), "Bool"), "nullfloat": (B("float64"), "Float64"), "nullstring": (B("string"), "String")}[tk]
            er = self.rt(wt, base[0])
            if omit and self.iszero(wt, "*in"):
                b.append("if %s {\n\t\treturn !out.Valid\n\t}" % self.iszero(wt, "*in"))
            b.append("return verifAnd(out.Valid, %s(in, &out.%s))" % (er, base[1]))
        else:
            raise ValueError("rt %s %s" % (wk, tk))
        self.w("func %s(in *%s, out *%s) bool {\n\t%s\n}\n" % (name, wt.go(), tt.go(), "\n\t".join(b)))
        return name

    def eqzero(self, t, e, z):
        """Go expression: *e equals the zero value *z of type t"""
        k = t.kind
        if k in ("bool",) or k in INTS or k in FLOATS or k in ("string", "fixed"):
            if k in FLOATS:
                return "*%s == 0" % e
            return "*%s == %s" % (e, z)
        if k in ("bytes", "slice", "map", "lbytes", "bslice", "lstring", "bpslice", "eslice"):
            return "len(*%s) == 0" % e
        if k == "ptr":
            return "*%s == nil" % e
        if k in NULLS or k == "nulltime":
            return "!%s.Valid" % e
        if k == "time":
            return "%s.IsZero()" % e
        if k == "struct":
            return "true"
        raise ValueError(k)

    def guards(self, t):
        name = "verifGuards_" + t.id()
        key = ("guards", t.id())
        if key in self.done:
            return name
        self.done.add(key)
        b = ["acc := true"]
        for i, f in enumerate(t.fields):
            if f.guard:
                b.append("acc = verifAnd(acc, p.G%d == [2]byte{0xA5, 0x5A})" % i)
        b.append("acc = verifAnd(acc, p.Gz == [2]byte{0xA5, 0x5A})")
        b.append("return acc")
        self.w("func %s(p *%s) bool {\n\t%s\n}\n" % (name, t.go(), "\n\t".join(b)))
        sname = "verifSetGuards_" + t.id()
        b = []
        for i, f in enumerate(t.fields):
            if f.guard:
                b.append("p.G%d = [2]byte{0xA5, 0x5A}" % i)
        b.append("p.Gz = [2]byte{0xA5, 0x5A}")
        self.w("func %s(p *%s) {\n\t%s\n}\n" % (sname, t.go(), "\n\t".join(b)))
        return name

    # ---------- harnesses ----------
    def harness_rt(self, t, group, wide=False):
        """C01 + C02 (+ guards for C05) on one type: write a symbolic value,
        reference-decode the bytes, read them back."""
        fill, rt = self.fill(t, False, False, wide), self.rt(t, t)
        datum = self.datum_under(natural(t), t)
        self.guards(t)
        self.w("""func verifHarness_C0102_%(group)s_%(n)s() {
	s, err := %(av)sSchemaForType(%(n)s{})
	verifAssert(err == nil, "C01:schema-generated")
	if err != nil {
		return
	}
	c, err := s.Codec(%(n)s{})
	verifAssert(err == nil, "C01:codec-built")
	if err != nil {
		return
	}
	verifUnwind(600)
	var in %(n)s
	%(fill)s(&in, "v")
	verifSetGuards_%(n)s(&in)
	w := %(av)sNewWriteBuf(nil)
	c.Write(w, unsafe.Pointer(&in))
	enc := w.Bytes()
	%(obs)s
	// C02: an independent reader, given only the schema and the bytes
	d, n, ok := refDecode(&s, enc, 0)
	verifAssert(ok, "C02:reference-reader-accepts")
	if ok {
		verifAssert(n == len(enc), "C02:no-bytes-left-over")
		want := %(datum)s(&in)
		verifAssert(refEq(&d, &want), "C02:reference-reader-sees-same-data")
	}
	// C01: the library reads its own output back
	var out %(n)s
	verifSetGuards_%(n)s(&out)
	r := %(av)sNewReadBuf(enc)
	err = c.Read(r, unsafe.Pointer(&out))
	verifAssert(err == nil, "C01:read-ok")
	if err == nil {
		verifAssert(r.Len() == 0, "C01:read-consumes-all")
		verifAssert(%(rt)s(&in, &out), "C01:value-round-trips")
		verifAssert(verifGuards_%(n)s(&out), "C05:guards-intact")
	}
	verifReach("end")
}
""" % dict(group=group, n=t.name, av=self.av, fill=fill, datum=datum, rt=rt,
           obs='verifObserveInt("enclen", len(enc))' if has_map(t) else 'verifObserveBytes("enc", enc)'))

    def harness_c20(self, t):
        """C20: the custom codec governs its type in this position and nothing
        else: schema generation emits the registered schema there, the bytes
        carry the marker encoding there and the default encoding for the
        unregistered twin, values round-trip; both registration orders."""
        fill, rt = self.fill(t), self.rt(t, t)
        datum = self.datum_under(natural(t), t)
        self.guards(t)
        self.w("""func verifHarness_C20_%(n)s() {
	verifMark = verifRegisterOrder()
	s, err := SchemaForType(%(n)s{})
	verifAssert(err == nil, "C20:schema-generated")
	if err != nil {
		return
	}
	want := %(lit)s
	verifAssert(verifSchemaEq(&s, &want), "C20:registered-schema-emitted-at-the-custom-type-and-nowhere-else")
	c, err := s.Codec(%(n)s{})
	verifAssert(err == nil, "C20:codec-built")
	if err != nil {
		return
	}
	var in %(n)s
	%(fill)s(&in, "v")
	verifSetGuards_%(n)s(&in)
	w := NewWriteBuf(nil)
	c.Write(w, unsafe.Pointer(&in))
	enc := w.Bytes()
	d, n, ok := refDecode(&s, enc, 0)
	verifAssert(ok && n == len(enc), "C20:output-is-valid-under-the-generated-schema")
	if ok {
		wantd := %(datum)s(&in)
		verifAssert(refEq(&d, &wantd), "C20:marker-encoding-exactly-at-the-custom-typed-values-latest-registration")
	}
	var out %(n)s
	verifSetGuards_%(n)s(&out)
	r := NewReadBuf(enc)
	err = c.Read(r, unsafe.Pointer(&out))
	verifAssert(err == nil, "C20:read-ok")
	if err == nil {
		verifAssert(r.Len() == 0, "C20:read-consumes-all")
		verifAssert(%(rt)s(&in, &out), "C20:values-round-trip-through-the-custom-codec")
		verifAssert(verifGuards_%(n)s(&out), "C05:guards-intact")
	}
	var empty struct{}
	ce, err2 := s.Codec(empty)
	if err2 == nil {
		r2 := NewReadBuf(enc)
		err2 = ce.Read(r2, unsafe.Pointer(&empty))
		verifAssert(err2 == nil && r2.Len() == 0, "C20:skip-consumes-all")
	}
	verifReach("end")
}
""" % dict(n=t.name, fill=fill, datum=datum, rt=rt, lit=natural(t).lit_ns(self.av)))

    def harness_c11(self, t):
        """C11: the heap the decoder builds is well-typed with respect to the
        pointer bitmaps of its allocations (engine: strict heap typing on every
        store, encode side included); natively the decoded value is re-examined
        after forced collections and same-size-class churn."""
        fill, rt = self.fill(t), self.rt(t, t)
        self.guards(t)
        self.w("""func verifHarness_C11_%(n)s() {
	verifStrictHeap(true)
	s, err := %(av)sSchemaForType(%(n)s{})
	verifAssume(err == nil)
	c, err := s.Codec(%(n)s{})
	verifAssume(err == nil)
	var in %(n)s
	%(fill)s(&in, "v")
	w := %(av)sNewWriteBuf(nil)
	c.Write(w, unsafe.Pointer(&in))
	out := new(%(n)s)
	r := %(av)sNewReadBuf(w.Bytes())
	err = c.Read(r, unsafe.Pointer(out))
	rb := r.ExtractResourceBank()
	verifAssert(err == nil, "C11:read-ok")
	if err == nil {
		verifAssert(%(rt)s(&in, out), "C11:decoded-value-holds-what-was-decoded")
		verifGCChurn()
		verifAssert(%(rt)s(&in, out), "C11:decoded-value-survives-collections")
		// encoding the decoded value again (map iteration included) gives the same data
		w2 := %(av)sNewWriteBuf(nil)
		c.Write(w2, unsafe.Pointer(out))
		verifGCChurn()
		var again %(n)s
		r2 := %(av)sNewReadBuf(w2.Bytes())
		err = c.Read(r2, unsafe.Pointer(&again))
		verifAssert(err == nil && %(rt)s(&in, &again), "C11:re-encoding-the-decoded-value-gives-the-same-data")
	}
	verifKeepAlive(rb)
	verifReach("end")
}
""" % dict(n=t.name, av=self.av, fill=fill, rt=rt))

    def harness_read(self, wt, tt, group, swap=False, wide=False):
        """C03 + C04: a conformant writer (reference encoder with symbolic
        writer-side choices) serialises a symbolic value of wt under wt's
        generated schema; the library decodes into tt (compatible type,
        projection, ...) and skips."""
        sd = natural(wt)
        if swap:
            sd = sd.swapped()
        fill = self.fill(wt, group == "proj", False, wide)
        datum = self.datum_under(sd, wt)
        rt = self.rt(wt, tt)
        self.guards(tt)
        fits = self.fits(wt, tt) if wide else None
        name = "verifHarness_C0304_%s_%s_to_%s%s%s" % (group, wt.name, tt.name, "_nullsecond" if swap else "", "_wide" if wide else "")
        self.w("""func %(name)s() {
	s, err := %(av)sSchemaForType(%(w)s{})
	verifAssume(err == nil)
	if %(swap)s {
		refSwapUnions(&s)
	}
	c, err := s.Codec(%(t)s{})
	verifAssert(err == nil, "C03:codec-built-for-compatible-target")
	if err != nil {
		return
	}
	verifUnwind(600)
	var in %(w)s
	%(fill)s(&in, "v")
	d := %(datum)s(&in)
	ch := refSymbolicChoices(&d)
	enc := refEncode(&s, &d, ch)
	var out %(t)s
	verifSetGuards_%(t)s(&out)
	r := %(av)sNewReadBuf(enc)
	err = c.Read(r, unsafe.Pointer(&out))
	%(check)s
	// C04: skipping consumes exactly what decoding consumes
	var empty struct{}
	ce, err2 := s.Codec(empty)
	verifAssert(err2 == nil, "C04:codec-built-for-empty-struct")
	if err2 == nil {
		r2 := %(av)sNewReadBuf(enc)
		err2 = ce.Read(r2, unsafe.Pointer(&empty))
		verifAssert(err2 == nil, "C04:skip-ok")
		verifAssert(err2 != nil || r2.Len() == 0, "C04:skip-consumes-all")
	}
	verifReach("end")
}
""" % dict(name=name, av=self.av, w=wt.name, t=tt.name, fill=fill, datum=datum, swap="true" if swap else "false",
           check=("""if %(fits)s {
		verifAssert(err == nil, "C03:read-ok")
		if err == nil {
			verifAssert(r.Len() == 0, "C03:read-consumes-all")
			verifAssert(%(rt)s(&in, &out), "C03:decoded-value-is-the-datum")
		}
		verifReach("fits")
	} else {
		verifAssert(err != nil, "C03:value-that-does-not-fit-is-an-error")
		verifReach("overflow")
	}
	verifAssert(verifGuards_%(t)s(&out), "C05:guards-intact")""" if fits else """verifAssert(err == nil, "C03:read-ok")
	if err == nil {
		verifAssert(r.Len() == 0, "C03:read-consumes-all")
		verifAssert(%(rt)s(&in, &out), "C03:decoded-value-is-the-datum")
		verifAssert(verifGuards_%(t)s(&out), "C05:guards-intact")
	}""") % dict(rt=rt, t=tt.name, fits=fits)))
        if group == "proj" and wt is not tt:
            self.out[-1] = self.out[-1].replace("C03:decoded-value-is-the-datum", "C04:projected-fields-keep-their-values")

    def fits(self, wt, tt):
        """Go bool expression over `in`: every integer of in fits its target field"""
        conds = []
        tf = {f.json_name(): f for f in tt.fields if f.json_name() != "-"}
        for f in wt.fields:
            jn = f.json_name()
            if jn == "-" or jn not in tf:
                continue
            g = tf[jn]
            a, b2 = f.ty, g.ty
            if a.kind in INTS and b2.kind in INT_RANGE:
                lo, hi = INT_RANGE[b2.kind]
                conds.append("int64(in.%s) >= %d && int64(in.%s) <= %d" % (f.name, lo, f.name, hi))
        return " && ".join(conds) if conds else "true"

    def header(self, imports):
        return "// Code generated by gen/gen_catalogue.py; DO NOT EDIT.\n\npackage %s\n\nimport (\n%s)\n\n" % (
            self.pkg, "".join("\t%s\n" % i for i in imports))


COMMON_HELPERS = """
// narrow integers: 1- and 2-byte varints (the full width of every primitive is
// covered alone in C17 and in the wide single-field records)
func verifNarrow(tag string) int64 {
	v := verifNondetI64(tag)
	verifAssume(v >= -8192 && v <= 8191)
	return v
}

func verifMaxLen() int {
	if verifThorough() {
		return 3
	}
	return 2
}

// collections nested inside collections
func verifMaxLenInner() int {
	if verifThorough() {
		return 2
	}
	return 1
}

func verifMaxStr() int { return 2 }

type verifEmptyRec struct{}

// lengths around the points where a length / count varint grows a byte
func verifLongLen(tag string) int {
	l := []int{63, 64, 65, 130}
	if verifThorough() {
		l = append(l, 127, 128, 200)
	}
	return l[verifChoice(tag+".len", len(l))]
}

func verifC06MaxLen() int {
	if verifThorough() {
		return 6
	}
	return 4
}

func verifStrEq(a, b string) bool {
	if len(a) != len(b) {
		return false
	}
	acc := true
	for i := 0; i < len(a); i++ {
		acc = verifAnd(acc, a[i] == b[i])
	}
	return acc
}
"""


def two(name_ty_tag):
    return name_ty_tag


def catalogue_avro(g):
    leafs = ["bool", "int", "int16", "int32", "int64", "float32", "float64", "string", "bytes"]
    cat = {}
    types = []

    def add(group, name, fields):
        t = g.struct(name, fields)
        types.append((group, t))
        cat[name] = t
        return t

    Z = lambda: Field("Z", B("int64"), 'json:"z"')
    for k in leafs:
        K = k.capitalize()
        add("leaf", "verifL_%s" % K, [Field("A", B(k)), Z()])
        add("omit", "verifO_%s" % K, [Field("A", B(k), 'json:"A,omitempty"'), Z()])
        add("ptr", "verifP_%s" % K, [Field("A", P(B(k))), Z()])
        if k != "bytes":
            add("slice", "verifS_%s" % K, [Field("A", S(B(k))), Z()])
        add("map", "verifM_%s" % K, [Field("A", M(B(k))), Z()])
    add("tags", "verifTags1", [
        Field("A", B("int64"), 'json:"-"'), Field("B", B("string"), 'json:"bee"'), Field("c", B("int64")),
        Field("D", B("int64"), 'bq:"-"'), Field("E", B("bool"), 'json:",omitempty"'), Field("F", B("int32"), 'json:"f,string,omitempty"')])
    inner = g.struct("verifInner", [Field("X", B("int64")), Field("Y", B("string"), 'json:"y,omitempty"')])
    cat["verifInner"] = inner
    add("nest", "verifN_Struct", [Field("A", inner), Z()])
    add("nest", "verifN_PtrStruct", [Field("A", P(inner)), Z()])
    add("nest", "verifN_SliceStruct", [Field("A", S(inner)), Z()])
    add("nest", "verifN_MapStruct", [Field("A", M(inner)), Z()])
    add("nest", "verifN_OmitStruct", [Field("A", inner, 'json:"A,omitempty"'), Z()])
    # a nested struct every field of which is optional on the wire: a non-nil pointer to an
    # all-empty value is still a non-nil pointer
    optinner = g.struct("verifOptInner", [Field("X", B("int64"), 'json:"x,omitempty"'), Field("P", P(B("int64"))), Field("S", B("string"), 'json:"s,omitempty"')])
    cat["verifOptInner"] = optinner
    add("nest", "verifN_PtrOptStruct", [Field("A", P(optinner)), Z()])
    add("deep", "verifD_PtrPtr", [Field("A", P(P(B("int64")))), Z()])
    add("deep", "verifD_PtrSlice", [Field("A", P(S(B("int64")))), Z()])
    add("deep", "verifD_PtrMap", [Field("A", P(M(B("int64")))), Z()])
    add("deep", "verifD_SlicePtr", [Field("A", S(P(B("int64")))), Z()])
    add("deep", "verifD_MapPtr", [Field("A", M(P(B("int64")))), Z()])
    add("deep", "verifD_SliceSlice", [Field("A", S(S(B("int32")))), Z()])
    add("deep", "verifD_MapSlice", [Field("A", M(S(B("int64")))), Z()])
    add("deep", "verifD_MapMap", [Field("A", M(M(B("int64")))), Z()])
    add("deep", "verifD_SliceMap", [Field("A", S(M(B("string")))), Z()])
    add("deep", "verifD_OmitPtr", [Field("A", P(B("string")), 'json:"A,omitempty"'), Z()])
    add("deep", "verifD_OmitSlice", [Field("A", S(B("string")), 'json:"A,omitempty"'), Z()])
    add("deep", "verifD_OmitMap", [Field("A", M(B("int64")), 'json:"A,omitempty"'), Z()])
    add("scale", "verifX_LongString", [Field("A", B("lstring")), Z()])
    add("scale", "verifX_LongBytes", [Field("A", B("lbytes")), Z()])
    add("scale", "verifX_LongStringOmit", [Field("A", B("lstring"), 'json:"A,omitempty"'), Z()])
    add("scale", "verifX_SliceLongString", [Field("A", S(B("lstring"))), Z()])
    add("scale", "verifX_MapLongBytes", [Field("A", M(B("lbytes"))), Z()])
    add("scale", "verifX_BigSlice", [Field("A", B("bslice")), Z()])
    add("scale", "verifX_PtrBigSlice", [Field("A", P(B("bslice"))), Z()])
    lvl3 = g.struct("verifX_L3", [Field("C", P(S(B("int64")))), Field("N", B("string"), 'json:"n,omitempty"')])
    lvl2 = g.struct("verifX_L2", [Field("B", M(lvl3)), Field("K", B("int64"))])
    add("x_scale", "verifX_Deep", [Field("A", S(lvl2)), Z()])  # thorough tier only
    add("scale", "verifX_ManyFields", [Field("F%02d" % i, B(k)) for i, k in enumerate(
        ["bool", "float64", "float64", "bool", "float64", "int16", "float64", "bool", "float64", "float64", "float64", "float64"])] + [Field("P", P(B("int64"))), Field("O", B("string"), 'json:"o,omitempty"')])
    add("scale", "verifX_TwoLongStrings", [Field("A", B("lstring")), Field("B", B("lstring")), Z()])
    add("scale", "verifX_BigSlicePtr", [Field("A", B("bpslice")), Z()])
    add("scale", "verifX_EmptyItems", [Field("A", B("eslice")), Field("N", B("string")), Z()])
    add("deep", "verifD_PtrBytes", [Field("A", P(B("bytes"))), Z()])
    add("deep", "verifD_SliceBytes", [Field("A", S(B("bytes"))), Z()])
    return types, cat


def catalogue_c20(g):
    Z = lambda: Field("Z", B("int64"), 'json:"z"')
    twinS = Ty("struct", name="verifTwinS", fields=[Field("A", B("int32"), guard=False), Field("B", B("int32"), guard=False)])
    twinI = Ty("int64", gotext="verifTwinI")
    out = []
    for k, twin in (("customS", twinS), ("customI", twinI), ("customL", B("bytes")), ("customT", B("string"))):
        K = k[-1]
        out.append(g.struct("verifC20_%s_field" % K, [Field("A", B(k)), Field("T", twin), Z()]))
        out.append(g.struct("verifC20_%s_ptr" % K, [Field("A", P(B(k))), Field("T", P(twin)), Z()]))
        out.append(g.struct("verifC20_%s_slice" % K, [Field("A", S(B(k))), Z()]))
        out.append(g.struct("verifC20_%s_map" % K, [Field("A", M(B(k))), Z()]))
        out.append(g.struct("verifC20_%s_omit" % K, [Field("A", B(k), 'json:"A,omitempty"'), Z()]))
        inner = g.struct("verifC20_%s_inner" % K, [Field("X", B(k)), Field("Y", B("int64"))])
        out.append(g.struct("verifC20_%s_nested" % K, [Field("A", inner), Field("B", P(inner)), Z()]))
    return out


def reader_pairs_avro(g, cat):
    """(writer type, target type, group) for C03/C04"""
    pairs = []
    Z = lambda: Field("Z", B("int64"), 'json:"z"')
    # same type, all writer choices
    for n in ["verifL_Int64", "verifL_String", "verifL_Bytes", "verifL_Bool", "verifL_Float32", "verifL_Float64", "verifL_Int16",
              "verifO_Int64", "verifO_String", "verifP_Int64", "verifP_String", "verifS_Int64", "verifS_String", "verifS_Bool",
              "verifM_Int64", "verifM_String", "verifN_Struct", "verifN_PtrStruct", "verifN_SliceStruct", "verifN_MapStruct",
              "verifD_SlicePtr", "verifD_MapPtr", "verifD_SliceSlice", "verifD_MapSlice", "verifD_SliceBytes", "verifD_OmitSlice", "verifD_OmitMap", "verifTags1"]:
        pairs.append((cat[n], cat[n], "same"))
    for n in ("verifX_LongString", "verifX_LongBytes", "verifX_LongStringOmit", "verifX_SliceLongString", "verifX_MapLongBytes", "verifX_BigSlice",
              "verifX_PtrBigSlice", "verifX_ManyFields", "verifX_TwoLongStrings", "verifX_BigSlicePtr", "verifX_EmptyItems"):
        pairs.append((cat[n], cat[n], "scale"))
    # integer width / pointer indirection / float width variations
    pairs.append((cat["verifL_Int64"], cat["verifL_Int"], "width"))
    pairs.append((cat["verifL_Int64"], cat["verifL_Int32"], "width"))
    pairs.append((cat["verifL_Int64"], cat["verifL_Int16"], "width"))
    pairs.append((cat["verifL_Int16"], cat["verifL_Int64"], "width"))
    pairs.append((cat["verifL_Float32"], cat["verifL_Float64"], "width"))
    pairs.append((cat["verifS_Int64"], cat["verifS_Int32"], "width"))
    pairs.append((cat["verifM_Int64"], cat["verifM_Int16"], "width"))
    pairs.append((cat["verifL_Int64"], cat["verifP_Int64"], "indir"))
    pairs.append((cat["verifP_Int64"], cat["verifL_Int64"], "indir"))
    pairs.append((cat["verifP_Int64"], cat["verifD_PtrPtr"], "indir"))
    pairs.append((cat["verifO_Int64"], cat["verifP_Int64"], "indir"))
    pairs.append((cat["verifO_String"], cat["verifP_String"], "indir"))
    pairs.append((cat["verifL_String"], cat["verifP_String"], "indir"))
    pairs.append((cat["verifS_Int64"], cat["verifD_SlicePtr"], "indir"))
    pairs.append((cat["verifD_SlicePtr"], cat["verifS_Int64"], "indir"))
    pairs.append((cat["verifN_Struct"], cat["verifN_PtrStruct"], "indir"))
    pairs.append((cat["verifN_PtrStruct"], cat["verifN_Struct"], "indir"))
    pairs.append((cat["verifS_Int64"], cat["verifD_PtrSlice"], "indir"))
    pairs.append((cat["verifM_Int64"], cat["verifD_PtrMap"], "indir"))
    # projections: delete / permute / add fields, at depth
    wide3 = g.struct("verifPr_Full", [Field("A", B("int64")), Field("B", S(B("string"))), Field("C", M(B("int64"))), Field("D", cat["verifInner"]), Field("E", B("float64"))])
    pr = [
        g.struct("verifPr_Permuted", [Field("E", B("float64")), Field("D", cat["verifInner"]), Field("C", M(B("int64"))), Field("B", S(B("string"))), Field("A", B("int64"))]),
        g.struct("verifPr_NoB", [Field("A", B("int64")), Field("C", M(B("int64"))), Field("D", cat["verifInner"]), Field("E", B("float64"))]),
        g.struct("verifPr_NoC", [Field("A", B("int64")), Field("B", S(B("string"))), Field("D", cat["verifInner"]), Field("E", B("float64"))]),
        g.struct("verifPr_NoD", [Field("A", B("int64")), Field("B", S(B("string"))), Field("C", M(B("int64"))), Field("E", B("float64"))]),
        g.struct("verifPr_OnlyE", [Field("E", B("float64"))]),
        g.struct("verifPr_Added", [Field("N1", B("string")), Field("A", B("int64")), Field("N2", S(B("int64"))), Field("E", B("float64")), Field("N3", P(B("int64")))]),
        g.struct("verifPr_InnerNoX", [Field("A", B("int64")), Field("D", g.struct("verifInnerNoX", [Field("Y", B("string"), 'json:"y,omitempty"')])), Field("E", B("float64"))]),
        g.struct("verifPr_InnerNoY", [Field("D", g.struct("verifInnerNoY", [Field("X", B("int64"))])), Field("A", B("int64"))]),
    ]
    pairs.append((wide3, wide3, "proj"))
    for t in pr:
        pairs.append((wide3, t, "proj"))
    # projections that drop nullable fields (the skipped value is a union, null first or second)
    wideu = g.struct("verifPu_Full", [Field("A", B("int64")), Field("S", P(B("string"))), Field("I", P(B("int64"))), Field("O", B("string"), 'json:"O,omitempty"'), Field("E", B("int64"))])
    for t in [
        g.struct("verifPu_NoS", [Field("A", B("int64")), Field("I", P(B("int64"))), Field("O", B("string"), 'json:"O,omitempty"'), Field("E", B("int64"))]),
        g.struct("verifPu_NoI", [Field("A", B("int64")), Field("S", P(B("string"))), Field("O", B("string"), 'json:"O,omitempty"'), Field("E", B("int64"))]),
        g.struct("verifPu_NoO", [Field("A", B("int64")), Field("S", P(B("string"))), Field("I", P(B("int64"))), Field("E", B("int64"))]),
        g.struct("verifPu_OnlyE", [Field("E", B("int64"))]),
    ]:
        pairs.append((wideu, t, "projunion"))
    return pairs


def catalogue_null(g):
    types = []
    cat = {}
    Z = lambda: Field("Z", B("int64"), 'json:"z"')

    def add(group, name, fields):
        t = g.struct(name, fields)
        types.append((group, t))
        cat[name] = t
        return t
    for k in NULLS:
        K = k[4:].capitalize()
        add("nullleaf", "verifL_Null%s" % K, [Field("A", B(k)), Z()])
        add("nullptr", "verifP_Null%s" % K, [Field("A", P(B(k))), Z()])
        add("nullomit", "verifO_Null%s" % K, [Field("A", B(k), 'json:"A,omitempty"'), Z()])
        add("nullslice", "verifS_Null%s" % K, [Field("A", S(B(k))), Z()])
        add("nullmap", "verifM_Null%s" % K, [Field("A", M(B(k))), Z()])
    for k, K in (("time", "Time"), ("nulltime", "NullTime")):
        add("timeleaf", "verifL_%s" % K, [Field("A", B(k)), Z()])
        add("timeptr", "verifP_%s" % K, [Field("A", P(B(k))), Z()])
        add("timeomit", "verifO_%s" % K, [Field("A", B(k), 'json:"A,omitempty"'), Z()])
        add("x_timeslice", "verifS_%s" % K, [Field("A", S(B(k))), Z()])  # x_: thorough tier only
        add("x_timemap", "verifM_%s" % K, [Field("A", M(B(k))), Z()])
    return types, cat


def reader_pairs_null(g, cat):
    pairs = []
    Z = lambda: Field("Z", B("int64"), 'json:"z"')
    plain = {
        "Int": (g.struct("verifW_Int64", [Field("A", B("int64")), Z()]), g.struct("verifW_PInt64", [Field("A", P(B("int64"))), Z()])),
        "Bool": (g.struct("verifW_Bool", [Field("A", B("bool")), Z()]), g.struct("verifW_PBool", [Field("A", P(B("bool"))), Z()])),
        "Float": (g.struct("verifW_Float64", [Field("A", B("float64")), Z()]), g.struct("verifW_PFloat64", [Field("A", P(B("float64"))), Z()])),
        "String": (g.struct("verifW_String", [Field("A", B("string")), Z()]), g.struct("verifW_PString", [Field("A", P(B("string"))), Z()])),
    }
    for K, (val, ptr) in plain.items():
        nl = cat["verifL_Null" + K]
        pairs.append((nl, nl, "nullsame"))
        pairs.append((val, nl, "wrap"))   # plain long data into a null.Int target
        pairs.append((ptr, nl, "wrap"))   # nullable data into a null.Int target
        pairs.append((nl, ptr, "wrap"))   # null.Int data into *int64
        pairs.append((nl, val, "wrap"))   # null.Int data into int64 (null leaves zero)
        pairs.append((cat["verifS_Null" + K], cat["verifS_Null" + K], "nullsame"))
        pairs.append((cat["verifM_Null" + K], cat["verifM_Null" + K], "nullsame"))
    return pairs



# ------------------------------------------------------------------ C05 matrix
C05_SCHEMAS = [
    Sd("null"), Sd("boolean"), Sd("int"), Sd("long"), Sd("float"), Sd("double"), Sd("bytes"), Sd("string"),
    Sd("fixed", size=0, name="f0"), Sd("fixed", size=1, name="f1"), Sd("fixed", size=4, name="f4"), Sd("fixed", size=16, name="f16"),
    Sd("record", name="inner", fields=[("X", Sd("long"))]), Sd("enum", name="e"),
    Sd("array", items=Sd("long")), Sd("map", items=Sd("long")), U(Sd("long")), Sd("union", branches=[Sd("string"), Sd("null")]),
    Sd("union", branches=[Sd("null"), Sd("string"), Sd("long")]), Sd("union", branches=[Sd("int"), Sd("long")]), Sd("union", branches=[Sd("long")]),
    Sd("bare_array"), Sd("bare_map"), Sd("bare_fixed"), Sd("bare_record"), Sd("bare_union"),
]

C05_KINDS = [
    ("bool", "bool"), ("int", "int"), ("int8", "int8"), ("int16", "int16"), ("int32", "int32"), ("int64", "int64"),
    ("uint", "uint"), ("uint8", "uint8"), ("uint16", "uint16"), ("uint32", "uint32"), ("uint64", "uint64"), ("uintptr", "uintptr"),
    ("float32", "float32"), ("float64", "float64"), ("complex64", "complex64"), ("complex128", "complex128"),
    ("string", "string"), ("bytes", "[]byte"), ("arr0", "[0]byte"), ("arr1", "[1]byte"), ("arr3", "[3]byte"), ("arr4", "[4]byte"),
    ("arr5", "[5]byte"), ("arr15", "[15]byte"), ("arr16", "[16]byte"), ("arr17", "[17]byte"), ("arr4i8", "[4]int8"),
    ("sliceI64", "[]int64"), ("sliceI16", "[]int16"), ("sliceI8", "[]int8"), ("arrI64", "[2]int64"),
    ("mapI64", "map[string]int64"), ("mapI16", "map[string]int16"), ("mapIntKey", "map[int]int64"),
    ("structX", "verifC05Inner"), ("structX16", "verifC05Inner16"), ("ptrI64", "*int64"), ("ptrI16", "*int16"), ("any", "any"), ("chan", "chan int"), ("func", "func()"),
    ("unsafeptr", "unsafe.Pointer"),
]

C05_POS = [("field", "%s", None), ("ptr", "*%s", None), ("slice", "[]%s", "array"), ("map", "map[string]%s", "map")]


def emit_c05(g):
    av = g.av
    g.w("type verifC05Inner struct {\n\tX int64\n}\n\ntype verifC05Inner16 struct {\n\tG0 [2]byte `json:\"-\"`\n\tX  int16\n\tG1 [2]byte `json:\"-\"`\n}\n")
    lits = ",\n\t\t".join(sd.lit(av) for sd in C05_SCHEMAS)
    g.w("func verifC05Schemas() []%sSchema {\n\treturn []%sSchema{\n\t\t%s,\n\t}\n}\n" % (av, av, lits))
    for kid, gotxt in C05_KINDS:
        for pid, pfmt, wrap in C05_POS:
            tname = "verifC05_%s_%s" % (pid, kid)
            ftype = pfmt % gotxt
            g.w("type %s struct {\n\tG0 [2]byte `json:\"-\"`\n\tF  %s\n\tG1 [2]byte `json:\"-\"`\n\tX  int64\n\tGz [2]byte `json:\"-\"`\n}\n" % (tname, ftype))
            if wrap == "array":
                wrapped = "%sSchema{Type: \"array\", Object: &%sSchemaObject{Items: fs}}" % (av, av)
            elif wrap == "map":
                wrapped = "%sSchema{Type: \"map\", Object: &%sSchemaObject{Values: fs}}" % (av, av)
            else:
                wrapped = "fs"
            g.w("""func verifHarness_C05_%(pid)s_%(kid)s() {
	verifStrictHeap(true)
	all := verifC05Schemas()
	fs := all[verifChoice("schema", len(all))]
	s := %(av)sSchema{Type: "record", Object: &%(av)sSchemaObject{Name: "r", Fields: []%(av)sSchemaRecordField{{Name: "F", Type: %(wrapped)s}}}}
	var out %(t)s
	out.G0, out.G1, out.Gz = [2]byte{0xA5, 0x5A}, [2]byte{0xA5, 0x5A}, [2]byte{0xA5, 0x5A}
	out.X = 0x1122334455667788
	c, err := s.Codec(&out)
	if err != nil {
		verifReach("end")
		return
	}
	d := refGenWire(&s, "d", 0)
	enc := refEncode(&s, &d, nil)
	r := %(av)sNewReadBuf(enc)
	_ = c.Read(r, unsafe.Pointer(&out))
	ok := verifAnd(out.G0 == [2]byte{0xA5, 0x5A}, verifAnd(out.G1 == [2]byte{0xA5, 0x5A}, out.Gz == [2]byte{0xA5, 0x5A}))
	verifAssert(ok, "C05:guards-intact")
	verifAssert(out.X == 0x1122334455667788, "C05:sibling-field-untouched")
	verifReach("end")
}
""" % dict(pid=pid, kid=kid, av=av, t=tname, wrapped=wrapped))


# ------------------------------------------------------------------ C06 arbitrary bytes
def emit_c06(g, types):
    av = g.av
    for t in types:
        g.w("""func verifHarness_C06_bytes_%(n)s() {
	s, err := %(av)sSchemaForType(%(n)s{})
	verifAssume(err == nil)
	c, err := s.Codec(%(n)s{})
	verifAssume(err == nil)
	var empty struct{}
	ce, err := s.Codec(empty)
	verifAssume(err == nil)
	n := verifChoice("len", verifC06MaxLen()+1)
	buf := verifBytes("buf", n)
	// termination and work proportional to the input, allocation proportional to the input
	verifUnwind(2*n + 8)
	verifAllocMax(n + 4)
	var out %(n)s
	r := %(av)sNewReadBuf(buf)
	err = c.Read(r, unsafe.Pointer(&out))
	verifObserveBool("read-err", err != nil)
	r2 := %(av)sNewReadBuf(buf)
	err2 := ce.Read(r2, unsafe.Pointer(&empty))
	verifObserveBool("skip-err", err2 != nil)
	verifReach("end")
}
""" % dict(n=t.name, av=av))


C06_MATRIX_KINDS = ("bool", "int64", "int16", "float32", "string", "bytes", "arr4", "sliceI64", "mapI64", "structX", "ptrI64")


def emit_c06_matrix(g):
    """arbitrary bytes into every (schema, Go kind) pair that builds, and through every schema's skip path"""
    av = g.av
    g.w("""func verifHarness_C06_skip_schema() {
	all := verifC05Schemas()
	fs := all[verifChoice("schema", len(all))]
	if verifChoice("wrap", 2) == 1 {
		fs = %(av)sSchema{Type: "array", Object: &%(av)sSchemaObject{Items: fs}}
	}
	s := %(av)sSchema{Type: "record", Object: &%(av)sSchemaObject{Name: "r", Fields: []%(av)sSchemaRecordField{{Name: "F", Type: fs}, {Name: "Z", Type: %(av)sSchema{Type: "long"}}}}}
	var empty struct{}
	c, err := s.Codec(empty)
	if err != nil {
		verifReach("end")
		return
	}
	n := verifChoice("len", verifC06MaxLen()+1)
	buf := verifBytes("buf", n)
	verifUnwind(2*n + 8)
	verifAllocMax(n + 4)
	r := %(av)sNewReadBuf(buf)
	err = c.Read(r, unsafe.Pointer(&empty))
	verifObserveBool("skip-err", err != nil)
	verifReach("end")
}
""" % dict(av=av))
    for kid, gotxt in C05_KINDS:
        if kid not in C06_MATRIX_KINDS:
            continue
        for pid, pfmt, wrap in C05_POS:
            tname = "verifC05_%s_%s" % (pid, kid)
            if wrap == "array":
                wrapped = "%sSchema{Type: \"array\", Object: &%sSchemaObject{Items: fs}}" % (av, av)
            elif wrap == "map":
                wrapped = "%sSchema{Type: \"map\", Object: &%sSchemaObject{Values: fs}}" % (av, av)
            else:
                wrapped = "fs"
            g.w("""func verifHarness_C06_matrix_%(pid)s_%(kid)s() {
	all := verifC05Schemas()
	fs := all[verifChoice("schema", len(all))]
	s := %(av)sSchema{Type: "record", Object: &%(av)sSchemaObject{Name: "r", Fields: []%(av)sSchemaRecordField{{Name: "F", Type: %(wrapped)s}}}}
	var out %(t)s
	c, err := s.Codec(&out)
	if err != nil {
		verifReach("end")
		return
	}
	n := verifChoice("len", verifC06MaxLen()+1)
	buf := verifBytes("buf", n)
	verifUnwind(2*n + 8)
	verifAllocMax(n + 4)
	r := %(av)sNewReadBuf(buf)
	err = c.Read(r, unsafe.Pointer(&out))
	verifObserveBool("read-err", err != nil)
	verifReach("end")
}
""" % dict(pid=pid, kid=kid, av=av, t=tname, wrapped=wrapped))


# ------------------------------------------------------------------ C13 caller schemas
def emit_c13(g, cases):
    """cases: (id, field schema Sd, Go field type Ty, tag, wide)"""
    av = g.av
    for cid, fsd, fty, tag, wide in cases:
        t = g.struct("verifC13_%s" % cid, [Field("F", fty, tag), Field("Z", B("int64"))])
        sd = Sd("record", name="r", fields=[("F", fsd), ("Z", Sd("long"))])
        fill = g.fill(t, False, False, wide)
        datum = g.datum_under(sd, t)
        rt = g.rt(t, t)
        g.guards(t)
        assume = ""
        if fsd.kind == "int" or (fsd.kind == "union" and any(b.kind == "int" for b in fsd.branches)):
            if fty.kind in ("int", "int64"):
                assume = "verifAssume(in.F >= -2147483648 && in.F <= 2147483647)"
        if fsd.has_kind("float") and fty.kind == "nullfloat":
            # values within the schema type's range: doubles that are exactly representable as float
            assume = "verifAssume(verifOr(in.F.Float64 != in.F.Float64, float64(float32(in.F.Float64)) == in.F.Float64))"
        g.w("""func verifHarness_C13_%(cid)s() {
	s := %(lit)s
	c, err := s.Codec(%(n)s{})
	if err != nil {
		verifReach("end")
		return
	}
	var in %(n)s
	%(fill)s(&in, "v")
	%(assume)s
	verifSetGuards_%(n)s(&in)
	w := %(av)sNewWriteBuf(nil)
	c.Write(w, unsafe.Pointer(&in))
	enc := w.Bytes()
	d, n, ok := refDecode(&s, enc, 0)
	verifAssert(ok, "C13:output-is-valid-under-the-caller-schema")
	if ok {
		verifAssert(n == len(enc), "C13:no-bytes-left-over")
		want := %(datum)s(&in)
		verifAssert(refEq(&d, &want), "C13:encodes-the-value-under-the-caller-schema")
	}
	var out %(n)s
	verifSetGuards_%(n)s(&out)
	r := %(av)sNewReadBuf(enc)
	err = c.Read(r, unsafe.Pointer(&out))
	verifAssert(err == nil, "C13:read-ok")
	if err == nil {
		verifAssert(r.Len() == 0, "C13:read-consumes-all")
		verifAssert(%(rt)s(&in, &out), "C13:decoding-returns-the-original")
		verifAssert(verifGuards_%(n)s(&out), "C05:guards-intact")
	}
	verifReach("end")
}
""" % dict(cid=cid, lit=sd.lit(av), n=t.name, fill=fill, assume=assume, av=av, datum=datum, rt=rt))
        if cid in ("fixed16_ptr", "fixed4"):
            body = g.out[-1].replace("verifHarness_C13_", "verifHarness_C11_caller_").replace("C13:", "C11:")
            body = body.replace("{\n\ts := ", "{\n\tverifStrictHeap(true)\n\ts := ", 1)
            g.w(body)


def c13_cases_avro():
    L, I, F, D = Sd("long"), Sd("int"), Sd("float"), Sd("double")
    NS = lambda x: Sd("union", branches=[x, Sd("null")])
    cases = []
    for k in INTS:
        cases.append(("long_%s" % k, L, B(k), "", k in ("int", "int64", "int32")))
        cases.append(("int_%s" % k, I, B(k), "", k in ("int", "int64", "int32")))
    cases += [
        ("float_float32", F, B("float32"), "", False), ("double_float32", D, B("float32"), "", False), ("double_float64", D, B("float64"), "", False),
        ("float_float64", F, B("float64"), "", False),
        ("nullsecond_ptr_int64", NS(L), P(B("int64")), "", False), ("nullsecond_ptr_string", NS(Sd("string")), P(B("string")), "", False),
        ("nullsecond_omit_int64", NS(L), B("int64"), 'json:"F,omitempty"', False), ("nullsecond_omit_string", NS(Sd("string")), B("string"), 'json:"F,omitempty"', False),
        ("nullsecond_omit_ptr_int64", NS(L), P(B("int64")), 'json:"F,omitempty"', False), ("nullfirst_omit_ptr_int64", U(L), P(B("int64")), 'json:"F,omitempty"', False),
        ("nullfirst_omit_ptr_string", U(Sd("string")), P(B("string")), 'json:"F,omitempty"', False), ("nullsecond_omit_ptr_bool", NS(Sd("boolean")), P(B("bool")), 'json:"F,omitempty"', False),
        ("nullsecond_plain_int64", NS(L), B("int64"), "", False), ("nullfirst_plain_string", U(Sd("string")), B("string"), "", False),
        ("nullfirst_ptr_int32_int", U(I), P(B("int32")), "", False), ("nullsecond_ptr_float32_float", NS(F), P(B("float32")), "", False),
        ("nullsecond_ptr_bool", NS(Sd("boolean")), P(B("bool")), "", False), ("nullsecond_ptr_bytes", NS(Sd("bytes")), P(B("bytes")), "", False),
        ("fixed4", Sd("fixed", size=4, name="f4"), FX(4), "", False), ("fixed0", Sd("fixed", size=0, name="f0"), FX(0), "", False),
        ("fixed16_ptr", U(Sd("fixed", size=16, name="f16")), P(FX(16)), "", False),
        ("array_int_int16", Sd("array", items=I), S(B("int16")), "", False), ("array_nullsecond_ptr", Sd("array", items=NS(L)), S(P(B("int64"))), "", False),
        ("map_int_int32", Sd("map", items=I), M(B("int32")), "", False), ("map_nullsecond_ptr", Sd("map", items=NS(Sd("string"))), M(P(B("string"))), "", False),
        ("array_float_float32", Sd("array", items=F), S(B("float32")), "", False),
        ("bytes_bytes", Sd("bytes"), B("bytes"), "", False), ("string_string", Sd("string"), B("string"), "", False), ("boolean_bool", Sd("boolean"), B("bool"), "", False),
    ]
    return cases


def c13_cases_null():
    L, I, F, D = Sd("long"), Sd("int"), Sd("float"), Sd("double")
    NS = lambda x: Sd("union", branches=[x, Sd("null")])
    return [
        ("nullint_long", U(L), B("nullint"), "", True), ("nullint_int", U(I), B("nullint"), "", False), ("nullint_nullsecond", NS(L), B("nullint"), "", False),
        ("nullfloat_double", U(D), B("nullfloat"), "", False), ("nullfloat_float", U(F), B("nullfloat"), "", False), ("nullfloat_nullsecond", NS(D), B("nullfloat"), "", False),
        ("nullbool", U(Sd("boolean")), B("nullbool"), "", False), ("nullbool_nullsecond", NS(Sd("boolean")), B("nullbool"), "", False),
        ("nullstring", U(Sd("string")), B("nullstring"), "", False), ("nullstring_nullsecond", NS(Sd("string")), B("nullstring"), "", False),
        ("ptr_nullint_nullsecond", NS(L), P(B("nullint")), "", False),
        ("array_nullint_nullsecond", Sd("array", items=NS(L)), S(B("nullint")), "", False),
    ]


def main():
    ga = Gen("avro")
    ta, cata = catalogue_avro(ga)
    for group, t in ta:
        ga.harness_rt(t, group)
    for n in ("verifL_Int64", "verifL_Int32", "verifL_Int", "verifO_Int64", "verifP_Int64"):
        ga.harness_rt(cata[n], "wide", wide=True)
    for wt, tt, group in reader_pairs_avro(ga, cata):
        ga.harness_read(wt, tt, group)
        if natural(wt).has_union() and group in ("same", "indir", "projunion"):
            ga.harness_read(wt, tt, group, swap=True)
    # wide (full 64-bit) values into narrower targets: the fit clause
    for tn in ("verifL_Int16", "verifL_Int32"):
        ga.harness_read(cata["verifL_Int64"], cata[tn], "fit", wide=True)
    catalogue_c20_types = catalogue_c20(ga)
    for t in catalogue_c20_types:
        ga.harness_c20(t)
    for n in ("verifD_PtrMap", "verifD_PtrSlice", "verifD_MapMap", "verifD_MapSlice", "verifD_SliceMap", "verifD_MapPtr", "verifD_SlicePtr",
              "verifD_SliceSlice", "verifD_PtrBytes", "verifD_SliceBytes", "verifN_MapStruct", "verifN_SliceStruct", "verifN_PtrStruct",
              "verifM_String", "verifM_Bytes", "verifS_String", "verifP_String", "verifL_String", "verifL_Bytes", "verifP_Int64"):
        ga.harness_c11(cata[n])
    c15 = [t for _, t in ta] + catalogue_c20_types
    ga.w("func verifC15Catalogue() []any {\n\treturn []any{%s}\n}\n" % ", ".join("%s{}" % t.name for t in c15))
    emit_c05(ga)
    emit_c06(ga, [cata[n] for n in ("verifL_Int64", "verifL_Int16", "verifL_String", "verifL_Bytes", "verifL_Bool", "verifL_Float32", "verifL_Float64",
                                    "verifO_Int64", "verifO_String", "verifP_Int64", "verifP_String", "verifS_Int64", "verifS_String", "verifM_Int64", "verifM_String",
                                    "verifN_Struct", "verifN_SliceStruct", "verifN_MapStruct", "verifD_SlicePtr", "verifD_MapPtr", "verifD_SliceSlice", "verifD_MapSlice",
                                    "verifD_SliceBytes", "verifD_PtrSlice", "verifD_PtrMap", "verifD_PtrPtr", "verifTags1")])
    emit_c06_matrix(ga)
    emit_c13(ga, c13_cases_avro())
    src = ga.header(['"unsafe"']) + COMMON_HELPERS + "\n".join(ga.out)
    open(os.path.join(OUT, "avro", "zz_verif_gen_cat.go"), "w").write(src)

    gn = Gen("null")
    tn, catn = catalogue_null(gn)
    for group, t in tn:
        gn.harness_rt(t, group)
    for wt, tt, group in reader_pairs_null(gn, catn):
        gn.harness_read(wt, tt, group)
        if group == "nullsame":
            gn.harness_read(wt, tt, group, swap=True)
    for n in ("verifM_NullString", "verifS_NullString", "verifM_NullBool", "verifM_NullInt"):
        gn.harness_c11(catn[n])
    emit_c06(gn, [catn[n] for n in ("verifL_NullInt", "verifL_NullBool", "verifL_NullFloat", "verifL_NullString", "verifS_NullInt", "verifM_NullString", "verifP_NullInt")])
    emit_c13(gn, c13_cases_null())
    src = gn.header(['"time"', '"unsafe"', '', '"github.com/philpearl/avro"', '"github.com/unravelin/null/v5"']) + COMMON_HELPERS + "\n".join(gn.out)
    src = src.replace("func verifHarness_", "func init() { RegisterCodecs() }\n\nfunc verifHarness_", 1)
    open(os.path.join(OUT, "null", "zz_verif_gen_cat.go"), "w").write(src)
    print("avro types:", len(ta), "null types:", len(tn))


if __name__ == "__main__":
    main()
