#!/bin/bash
# usage: run_all.sh [tier] [ids...]   runs ./check for every property, one after the other, and prints a summary
here=$(cd "$(dirname "$0")/.." && pwd); cd $here
tier=${1:-quick}; shift
ids="$@"; [ -z "$ids" ] && ids="C01 C02 C03 C04 C05 C06 C07 C08 C09 C10 C11 C12 C13 C14 C15 C16 C17 C18 C19 C20"
for p in $ids; do
  s=$(date +%s)
  timeout ${CHECK_TIMEOUT:-14400} ./check $p --tier $tier > /tmp/run_all_$p.log 2>&1; rc=$?
  e=$(date +%s)
  echo "$p tier=$tier rc=$rc secs=$((e-s)) $(grep -c '^KNOWN-FINDING' /tmp/run_all_$p.log) known; $(tail -1 /tmp/run_all_$p.log | cut -c1-160)"
  [ $rc -ne 0 ] && grep -v '^KNOWN' /tmp/run_all_$p.log | head -6 | cut -c1-300
done
