#!/bin/bash
# usage: run_seeds.sh [seed-id ...]
# Applies each seeded change to a scratch clone of /repo (never /repo itself), runs the check(s) of its
# property against that clone (VERIF_REPO), and reports. Run it from a snapshot (vp run) so that edits
# in /verif do not disturb it.
here=$(cd "$(dirname "$0")/.." && pwd); cd $here
ids="$@"; [ -z "$ids" ] && ids=$(ls seeded)
clone=$(mktemp -d /tmp/seedrepo.XXXXXX)
git clone -q /repo $clone/repo
sum=$here/seeded_results.txt; : > $sum
for id in $ids; do
  d=seeded/$id; prop=$(python3 -c "import json;print(json.load(open('$d/meta.json'))['property'])")
  extra=$(python3 -c "import json;print(' '.join(json.load(open('$d/meta.json')).get('also_check',[])))")
  git -C $clone/repo checkout -q -- . ; git -C $clone/repo clean -fdq
  if ! git -C $clone/repo apply $here/$d/patch.diff 2>/dev/null; then echo "$id: PATCH DOES NOT APPLY" | tee -a $sum; continue; fi
  out=""
  for p in $prop $extra; do
    # the registered quick check, unchanged; the engine's early cut keeps a tree that already shows
    # violations from exploring to the end (SEED_MAX_PATHS lowers the per-harness budget if wanted)
    VERIF_MAX_PATHS=${SEED_MAX_PATHS:-} VERIF_REPO=$clone/repo ./check $p --tier quick > $clone/${id}_$p.log 2>&1; rc=$?
    v=$(grep -c '^VIOLATION' $clone/${id}_$p.log)
    out="$out $p:rc=$rc,violations=$v"
    grep -A1 '^VIOLATION' $clone/${id}_$p.log | grep harness | head -3 | sed "s/^/    $id $p /" >> $sum
    [ $rc -eq 3 ] && grep INCONCLUSIVE $clone/${id}_$p.log | head -3 | sed "s/^/    $id $p /" >> $sum
  done
  echo "$id:$out" | tee -a $sum
done
rm -rf $clone
