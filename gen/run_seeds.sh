#!/bin/bash
# usage: run_seeds.sh [seed-id ...]   applies each seeded change to /repo, runs the check(s) of its property, undoes it.
cd /verif
ids="$@"; [ -z "$ids" ] && ids=$(ls seeded)
for id in $ids; do
  d=seeded/$id; prop=$(python3 -c "import json;print(json.load(open('$d/meta.json'))['property'])")
  extra=$(python3 -c "import json;print(' '.join(json.load(open('$d/meta.json')).get('also_check',[])))")
  if ! git -C /repo apply --check $PWD/$d/patch.diff 2>/dev/null; then echo "$id: PATCH DOES NOT APPLY"; continue; fi
  git -C /repo apply $PWD/$d/patch.diff
  out=""
  for p in $prop $extra; do
    ./check $p --tier quick > /tmp/seedrun_${id}_$p.log 2>&1; rc=$?
    out="$out $p:rc=$rc"
  done
  git -C /repo checkout -- .
  echo "$id:$out" | tee -a /tmp/seedrun_summary.txt
done
# evidence files were rewritten by runs on a mutated tree: restore the committed ones
git -C /verif checkout -- evidence 2>/dev/null
