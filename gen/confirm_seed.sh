#!/bin/bash
# usage: confirm_seed.sh <out dir of agent (with patch.diff, zz_seed_demo_test.go, notes.md)> <seed id> <property> [pkgdir]
# Confirms in a scratch worktree that: tests pass with the patch, demo fails with it, demo passes without it.
set -u
src=$1; id=$2; prop=$3; pkg=${4:-.}
wt=/tmp/seedconfirm_$id
export GOFLAGS=-mod=mod GOPROXY=off
git -C /repo worktree remove --force $wt 2>/dev/null
git -C /repo worktree add -q $wt HEAD || exit 2
cd $wt
res_clean_demo=FAIL; res_patch_tests=FAIL; res_patch_demo=PASS
cp $src/zz_seed_demo_test.go $wt/$pkg/
if go test -vet=off -count=1 -run 'TestSeedDemo' ./$pkg >/tmp/seedconfirm_$id.clean.log 2>&1; then res_clean_demo=PASS; fi
rm $wt/$pkg/zz_seed_demo_test.go
if ! git apply $src/patch.diff; then echo "patch does not apply"; git -C /repo worktree remove --force $wt; exit 2; fi
if go build ./... && go test -vet=off -count=1 ./... >/tmp/seedconfirm_$id.tests.log 2>&1; then res_patch_tests=PASS; fi
cp $src/zz_seed_demo_test.go $wt/$pkg/
if go test -vet=off -count=1 -run 'TestSeedDemo' ./$pkg >/tmp/seedconfirm_$id.demo.log 2>&1; then res_patch_demo=PASS; else res_patch_demo=FAIL; fi
cd /
git -C /repo worktree remove --force $wt
echo "$id: clean+demo=$res_clean_demo patch+tests=$res_patch_tests patch+demo=$res_patch_demo"
if [ $res_clean_demo = PASS ] && [ $res_patch_tests = PASS ] && [ $res_patch_demo = FAIL ]; then
  d=/verif/seeded/$id; mkdir -p $d
  cp $src/patch.diff $d/patch.diff; cp $src/zz_seed_demo_test.go $d/; cp $src/notes.md $d/notes.md
  python3 - "$d" "$id" "$prop" "$pkg" <<'PY'
import json,sys
d,i,p,pkg=sys.argv[1:5]
notes=open(d+'/notes.md').read()
json.dump({"id":i,"property":p,"demo_package_dir":pkg,"needs_to_manifest":"see notes.md (written by the sub-agent that produced the change)",
 "confirmed":{"demo_passes_on_clean_tree":True,"existing_tests_pass_with_patch":True,"demo_fails_with_patch":True,
 "how":"gen/confirm_seed.sh: scratch worktree of /repo HEAD; go test -run TestSeedDemo on the clean tree; git apply patch.diff; go build ./... && go test ./...; go test -run TestSeedDemo"},
 "detected_by":[]},open(d+'/meta.json','w'),indent=1)
PY
  echo "kept in $d"
else
  echo "NOT kept"; tail -5 /tmp/seedconfirm_$id.*.log
fi
