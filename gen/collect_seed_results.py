#!/usr/bin/env python3
"""Collects the outcome of gen/run_seeds.sh runs (seeded_results.txt files) into
seeded_results.md and into each seed's meta.json (detected_by)."""
import json, os, re, sys
V = os.path.join(os.path.dirname(os.path.abspath(__file__)), "..")
res = {}
detail = {}
SID = r"C\d+-\d?[AB]"
for path in sys.argv[1:]:
    fres, fdet = {}, {}
    for line in open(path):
        m = re.match(r"^(%s): (.*)$" % SID, line.strip())
        if m and not line.startswith("    "):
            fres[m.group(1)] = m.group(2)
            continue
        m = re.match(r"^\s+(%s) (C\d+)\s+harness=(\S+) \[(\w[\w-]*)\] (.*?) at (\S+) .*confirmed=(\S*)" % SID, line)
        if m:
            fdet.setdefault(m.group(1), [])
            if len(fdet[m.group(1)]) < 3:
                fdet[m.group(1)].append("%s: [%s] %s (confirmed natively: %s)" % (m.group(3).replace("verifHarness_", ""), m.group(4), m.group(5), m.group(7) or "n/a"))
    # a later file replaces what an earlier one said about the same seed
    for sid, r in fres.items():
        res[sid] = r
        detail[sid] = fdet.get(sid, [])
rows = []
for sid in sorted(os.listdir(os.path.join(V, "seeded"))):
    mp = os.path.join(V, "seeded", sid, "meta.json")
    if not os.path.exists(mp):
        continue
    meta = json.load(open(mp))
    notes = open(os.path.join(V, "seeded", sid, "notes.md")).read()
    first = next((l.strip("# *").strip() for l in notes.splitlines() if l.strip()), "")
    r = res.get(sid, "not run")
    caught = "rc=1" in r
    meta["check_result"] = r
    meta["detected_by"] = detail.get(sid, [])
    meta["detected"] = caught
    json.dump(meta, open(mp, "w"), indent=1)
    rows.append((sid, meta["property"], "caught" if caught else ("inconclusive" if "rc=3" in r else ("MISSED" if "rc=0" in r else r)), first[:110], "; ".join(detail.get(sid, [])[:2])))
with open(os.path.join(V, "seeded_results.md"), "w") as f:
    f.write("# Seeded breaking changes vs. checks\n\nEach change compiles, passes the 261 existing tests, and fails its own demonstration test (confirmed in a scratch worktree). "
            "`gen/run_seeds.sh` applied it to a scratch clone of /repo and ran the property's registered quick check (`VERIF_REPO`). Rounds: X-A/B one-site regressions; X-2A/2B scale-dependent; X-3A/3B and X-4A/4B different sites and mechanisms from the earlier ones. The outcome shown is that of the latest run of each seed.\n\n")
    f.write("| seed | property | outcome | change | first findings |\n|---|---|---|---|---|\n")
    for r in rows:
        f.write("| %s | %s | %s | %s | %s |\n" % r)
    n = len(rows); c = sum(1 for r in rows if r[2] == "caught")
    f.write("\n%d of %d seeded changes are reported as violations by the check of their property.\n" % (c, n))
print(open(os.path.join(V, "seeded_results.md")).read()[-300:])
