#!/usr/bin/env python3
"""Writes /verif/MANIFEST.json from the table below (kept next to props.json)."""
import json, os

V = os.path.join(os.path.dirname(os.path.abspath(__file__)), "..")
props = [json.loads(l) for l in open(os.path.join(V, "properties.jsonl"))]

TRUST = ("trusts: the SSA->SMT translation of symgo (validated on every run: one model per explored path is pushed "
         "through the natively compiled real code via go test -overlay and the observed bytes/values/assertion outcomes "
         "must equal the encoding's prediction), go/ssa + go/types of x/tools v0.50.0, the SMT solver; environment stubs "
         "are listed in the evidence file's assumptions")

CLAIMED = {
    "C01": ("bounded symbolic execution of the real schemaForType/buildCodec/Write/Read SSA over a generated catalogue of 84 struct types; "
            "for every type the round-trip assertion is decided by the solver for all field values within the bounds", "DESIGN.md C01"),
    "C02": ("same exploration as C01, the oracle being a reference Avro decoder written from the specification that sees only the "
            "generated Schema value and the bytes; null-branch rule asserted via the expected datum", "DESIGN.md C02"),
    "C03": ("bounded symbolic execution of the real decoder over the bytes of a reference encoder whose every spec-permitted choice "
            "(block splitting, size prefixes, null position) is a solver variable, into compatible target types (width, indirection, wrappers)", "DESIGN.md C03"),
    "C04": ("same exploration as C03; asserts that Skip (empty target struct) consumes exactly what Read consumes and that projected targets "
            "decode the same field values", "DESIGN.md C04"),
    "C05": ("exhaustive (schema type x Go kind x position) matrix; for each pair the real Schema.Codec runs in the engine and, if it builds, the real Read runs on a valid "
            "encoding of an arbitrary symbolic datum with guard bytes around the destination; the solver decides guard/sibling integrity for all inputs and the engine's "
            "byte-granular heap with pointer-word shadow decides that every store stays inside its object and is type-correct", "DESIGN.md C05"),
    "C06": ("every byte string up to the bound is offered to every reading entry point symbolically; implicit per-instruction assertions (bounds, nil, make, division) "
            "decide no-panic, unwinding assertions decide termination / work proportional to input, an allocation assertion decides input-controlled allocation size", "DESIGN.md C06"),
    "C07": ("real FileWriter output with a symbolic sync marker read back by the real ReadFile; corruption sites (sync, checksum, magic) are replaced by arbitrary "
            "different bytes, the decompressor's verdict is a symbolic choice; the solver decides 'error, and nothing delivered' for all of them", "DESIGN.md C07"),
    "C08": ("the crash point is one decision variable ranging over every byte offset of files of three layouts and three codecs; the oracle is computed from the layout", "DESIGN.md C08"),
    "C09": ("inductive step from an arbitrary valid encoder state (covers histories of any length) plus all bounded histories, checked with a reference block parser", "DESIGN.md C09"),
    "C10": ("inductive allocator step from arbitrary bank states plus retained-record harness over multi-block files with bank close/recycle; aliasing is decided on the engine's object heap", "DESIGN.md C10"),
    "C11": ("GC schedules cannot be quantified over by a solver; decided instead: heap well-typedness of everything the codecs allocate and store (per-store assertions in the "
            "engine's typed heap, for all inputs), which is the schedule-independent condition under which a precise collector sees every reachable object; native replays add forced collections and churn", "DESIGN.md C11"),
    "C12": ("interleavings are not explored; decided instead, for all inputs: each operation's write set is private or lock-guarded and registry accesses hold the right mutex "
            "(ownership / lockset monitor in the engine), from which race freedom and result equivalence follow for every schedule", "DESIGN.md C12"),
    "C13": ("caller-written schemas x covering Go types; reference decoder under the caller's schema and read-back, for all values within the schema type's range", "DESIGN.md C13"),
    "C16": ("the fault index is a decision variable over every Write call of every bounded history; fault-free twin for the prefix clause", "DESIGN.md C16"),
    "C17": ("full-width symbolic execution of the primitive codecs: every int64/int32/int16 value, every float32/float64 bit pattern, "
            "every byte string <= 11 bytes as a candidate varint, against a reference transcribed from the specification", "DESIGN.md C17"),
}

CLAIMED.update({
    "C14": ("NARROW: symbolic execution of the hand-written Schema.MarshalJSONTo / UnmarshalJSONFrom SSA against a token-level contract model of the JSON library that is itself "
            "validated against the real library on every run; everything the library decides alone (text layout, malformed input) is outside the claim", "DESIGN.md C14"),
    "C15": ("the input of schema generation is a type, so the type itself is symbolic: reflect.Type is served by descriptors whose kind is a solver variable and whose "
            "edges, fields, tags, sharing and cycles are decided by forking; the real schemaForType / buildCodec run on them and are compared with a reference transcription of the mapping", "DESIGN.md C15"),
    "C18": ("all strings <= 40 bytes for no-panic; the full RFC 3339 grammar with every digit a solver variable for agreement with time.Date on the parsed fields; "
            "replayed strings are cross-checked against time.Parse natively", "DESIGN.md C18"),
    "C19": ("full-range symbolic integers / instants through the real time codecs against an abstract model of time.Time; multiplications and divisions by constants bit-blasted", "DESIGN.md C19"),
    "C20": ("custom marker codecs registered through the real registry in every position of the catalogue, next to unregistered twins, both registration orders", "DESIGN.md C20"),
})

NA_DEFAULT = "not claimed (see DESIGN.md section 6)"
NA = {}

checks = []
for p in props:
    pid = p["id"]
    if pid not in CLAIMED:
        continue
    text, ref = CLAIMED[pid]
    checks.append({
        "property_id": pid,
        "quick_cmd": f"./check {pid} --tier quick",
        "thorough_cmd": f"./check {pid} --tier thorough",
        "evidence_file": f"/verif/evidence/{pid}.json",
        "replay_cmd_template": "./replay {path}",
        "engine": "symgo",
        "level_claimed": {"category": "model_checking", "text": text, "design_ref": ref},
        "level_note": TRUST,
        "technique": "symbolic execution of go/ssa + SMT (z3/cvc5), native replay of models",
    })

m = {
    "version": 1,
    "setup_cmd": "cd /verif/engine && GOFLAGS=-mod=mod GOPROXY=off GOTOOLCHAIN=local go1.26.8 build -o /verif/bin/symgo .",
    "hooks": {
        "guard": "verif",
        "enable": "none needed: harnesses are injected as go/packages and go test overlays (zz_verif_*.go), nothing is written into /repo",
        "baseline_off_cmd": "cd /repo && GOFLAGS=-mod=mod go test -vet=off -count=1 ./...",
        "source_commits": [],
        "add_only": True,
    },
    "engines": [{
        "name": "symgo", "path": "/verif/engine", "serves_properties": sorted(CLAIMED),
        "kind_free_text": "purpose-built symbolic executor for Go SSA (go/ssa of /repo's current source, regenerated on every run) emitting SMT-LIB2 to z3/cvc5 over a pipe; solver models are replayed against the natively compiled code",
    }],
    "checks": checks,
    "notes": "see DESIGN.md; known_findings.json lists genuine defects of the pinned tree (status known) and the ones repaired by fix: commits in /repo (status fixed, suppress nothing)",
    "not_applicable": [{"property_id": p["id"], "reason": NA.get(p["id"], NA_DEFAULT)} for p in props if p["id"] not in CLAIMED],
}
json.dump(m, open(os.path.join(V, "MANIFEST.json"), "w"), indent=1)
print("claimed:", sorted(CLAIMED))
