#!/usr/bin/env python3
"""Writes /verif/props.json: per property, which harnesses decide it, with which
solver, what the bounds are and which environment stubs are in force."""
import json, os

V = os.path.join(os.path.dirname(os.path.abspath(__file__)), "..")

A_CORE = [
    "fmt.Errorf / fmt.Sprintf: fresh non-nil error (wrapping its %w operand) / opaque string; message text is not modelled",
    "sync.Pool: Get returns a fresh New() object or any previously Put object (symbolic choice); sync.Mutex/RWMutex: lock bookkeeping only",
    "reflect.Type is served from go/types of the current source (Kind, Elem, Key, Len, Size, NumField, Field, Name, PkgPath, String); reflect.StructTag.Get, strings.Cut/Index, strings.NewReplacer/Replace are computed natively on concrete strings",
    "runtime linknames (unsafe_New, unsafe_NewArray, typedmemclr, typedslicecopy, mapassign, mapiter*, maplen) are typed operations on the engine heap; map iteration order is a symbolic permutation (maps of <= 3 entries)",
    "memory: byte-granular objects with a pointer-word shadow, amd64 layout (types.SizesFor gc/amd64); every access is bounds-checked; append growth follows the runtime's doubling + size-class rule",
    "packages other than the repo's are not initialised: error sentinels (io.EOF, io.ErrUnexpectedEOF, ...) and time.UTC are pre-seeded, any other foreign global read is reported as inconclusive",
]
A_FILE = [
    "schema JSON: json.Marshal(*Schema) is an invertible two-byte token, json.Unmarshal inverts it (JSON text and parser: C14); natively the real JSON library runs",
    "compression: snappy.Encode/Decode and compress/flate are tagged-identity models (decompress(compress(x)) = x, input without the tag is rejected, and - where a harness enables it - the decompressor may reject any block after delivering any prefix of its output); crc32.ChecksumIEEE is an uninterpreted function of the bytes; natively the real libraries run",
    "io.CopyN is a contract model (copies up to n bytes in chunks of <= 8, io.EOF when the source ends early); binary.ReadVarint, io.ReadFull, bytes.Buffer, bytes.Reader are executed from the go1.24.0 std-lib SSA",
    "crypto/rand.Read fills with fresh symbolic bytes (the sync marker is 16 arbitrary bytes)",
]
A_TIME = [
    "time.Time is modelled in its real layout for values without a monotonic reading (wall = nanosecond, ext = seconds since year 1, loc = nil for UTC or a fixed-offset location); time.Date (with month normalisation) and the calendar accessors Date/Year/Month/Day/YearDay/Weekday/Clock/Hour/Minute/Second/AddDate are exact proleptic-Gregorian arithmetic as 32-bit bit-vector terms for years within +-1,000,000 (engine/timecal.go, validated against the real package on a table of boundary dates by harness C19_calendar_model; outside that range the path is inconclusive, never approximated); time.Unix normalises nanoseconds through fresh quotient/remainder variables; Unix/UnixNano/UnixMicro/UnixMilli/Nanosecond/IsZero/UTC/In/Local/Equal/Before/After/Compare/Add/Sub/Zone/Location/FixedZone/time.UnixMilli/time.UnixMicro follow their documented contracts; Local is not given an offset; Time.Format returns the text the harness bound; any other time API is an engine failure (inconclusive)",
]

CAT = ("type catalogue: 106 struct types (every leaf kind bool/int/int16/int32/int64/float32/float64/string/[]byte x {field, omitempty field, pointer, "
       "slice element, map value}, tag variants (json name, '-', omitempty with other options, bq:\"-\", unexported), 25 depth-2 shapes incl. **T, *[]T, *map, "
       "[]*T, map[string]*T, [][]T, maps of slices/maps/structs, omitempty on pointer/slice/map, null.Int/Bool/Float/String in every position; time.Time and null.Time as field, omitempty field and behind a pointer, and - thorough tier - as slice element and map value, built from symbolic RFC 3339 digits with 0/3/9 fraction digits and Z or a numeric offset, their RFC3339Nano text bound to the value because Time.Format is not modelled); "
       "scale group: strings and byte slices of 63/64/65/130 (thorough also 127/128/200) arbitrary bytes as field, omitempty field, slice element, map value and two in one record; []int64 and *[]int64 of 63/64/65/130 elements; []*int64 of 33/40/65 elements (resource-bank growth); slices of 0/1/9/70 zero-byte items; a 14-field record; full-width int/int32/int64 as field, omitempty field and behind a pointer; thorough: a 4-level nesting; values: all - integer fields and length prefixes in [-8192,8191] (1-2 byte varints; the full width is covered in C17 and the fit clause of C03), "
       "int16 and floats full width incl. NaN/Inf/-0; strings/bytes of 0..2 arbitrary bytes (non-UTF-8 included); collections 0..2 elements, nested collections 0..1 "
       "(thorough: 0..3 / 0..2), nil and empty both; map keys 1 byte, distinct; nil pointers at every level; loop unwinding 64")

P = {}

P["C01"] = {
    "common": {"validate": 6, "ignore_kinds": ["alloc", "unwind"], "runs": [
        {"pattern": "verifHarness_C0102_[^x]", "label_filter": "C01:"},
        {"pattern": "verifHarness_C01_(e2e|sequence)", "label_filter": "C01:"}]},
    "thorough": {"validate": 24, "runs": [
        {"pattern": "verifHarness_C0102_", "label_filter": "C01:"},
        {"pattern": "verifHarness_C01_(e2e|sequence)", "label_filter": "C01:"}]},
    "bounds": CAT + "; codec level: one record per run (write, then read back into a zeroed target); end to end (C01_e2e): NewEncoderFor -> 1..3 (thorough 1..4) Encode/Flush calls in every order -> final Flush -> ReadFile, compression in {null, deflate, snappy}, block size in {0, 4, 7, 100} bytes, records {int64, 1-byte string}",
    "outside": "deeper nesting, longer collections and strings; that Time.Format emits the bound text (real Format runs in every native replay); real deflate/snappy bytes; allocation size and loop-bound findings raised while reading back are C06's subject",
    "assumptions": A_CORE + A_FILE,
}
P["C02"] = {
    "common": {"validate": 6, "ignore_kinds": ["alloc", "unwind"], "runs": [
        {"pattern": "verifHarness_C0102_[^x]", "label_filter": "C02:"},
        {"pattern": "verifHarness_C09_history", "label_filter": "C09:"},
        {"pattern": "verifHarness_C02_container", "label_filter": "C02:"}]},
    "thorough": {"validate": 24, "runs": [
        {"pattern": "verifHarness_C0102_", "label_filter": "C02:"},
        {"pattern": "verifHarness_C09_history", "label_filter": "C09:"},
        {"pattern": "verifHarness_C02_container", "label_filter": "C02:"}]},
    "bounds": CAT + "; oracle: reference Avro decoder written from the 1.8 specification, driven only by the Schema value the library generated and the bytes written; null-branch rule via the expected datum (nil pointer / invalid null.* / zero omitempty <=> null branch); container: header (magic, metadata map with exactly avro.schema and avro.codec, zero terminator, sync) and blocks (count, byte size, payload, sync) parsed by a reference container parser, all three codecs, histories of 1..3 encode/flush calls",
    "outside": "JSON text of the embedded schema (C14); real compressed bytes; an empty non-nil map under omitempty may be written as either branch",
    "assumptions": A_CORE + A_FILE,
}
P["C03"] = {
    "common": {"validate": 4, "ignore_kinds": ["alloc", "unwind"], "runs": [
        {"pattern": "verifHarness_C0304_", "label_filter": "C03:"},
        {"pattern": "verifHarness_C03_", "label_filter": "C03:"},
        {"pattern": "verifHarness_C04_mixed_blocks", "label_filter": "C03:"},
        {"pattern": "verifHarness_C07_intact", "label_filter": "C07:"}]},
    "thorough": {"validate": 16},
    "bounds": "129 (writer type, target type) pairs: 28 catalogue types and the 11 scale types (long strings/bytes, big and zero-size-item collections, many fields) read into themselves; integer width (int64<->int/int32/int16, also inside slices/maps), float32 carried as double, pointer indirection (T<->*T<->**T, []T<->[]*T, struct<->*struct, []T->*[]T, map->*map), null.* wrappers vs plain and pointer targets, projections. The writer is the reference encoder with every writer-side freedom a solver variable: per array/map where the first block ends (1 or 2 blocks + terminator) and whether blocks carry a negative count and byte size; null first and null second in every nullable union. Values as C01. Fit clause: all 2^64 longs into int16 and int32 targets (error iff out of range). File level: every layout in {[1],[2,1],[1,1],[0,1]} (thorough +[2,2],[1,0,2],[0],[3]) x {null, deflate, snappy} through the real FileWriter and ReadFile",
    "outside": "fixed / enum / multi-branch unions as data (see C05, C13), except collections of zero-byte items (array of null, of fixed(0), of field-less records; 0..4 items, one or two blocks, plain or size-prefixed, last in the buffer or followed by another field: harness C03_zero_byte_items); three or more blocks per collection; float64 data into float32 targets (narrowing is not an error in the library; not claimed)",
    "assumptions": A_CORE + A_FILE,
}
P["C04"] = {
    "common": {"validate": 4, "ignore_kinds": ["alloc", "unwind"], "runs": [
        {"pattern": "verifHarness_C0304_", "label_filter": "C04:"},
        {"pattern": "verifHarness_C04_", "label_filter": "C04:"},
        {"pattern": "verifHarness_C05_embedded", "label_filter": "C05:"}]},
    "thorough": {"validate": 16},
    "bounds": "same exploration as C03: for each of the 129 pairs the same bytes (incl. size-prefixed and two-block collections, unions, nested records) are decoded into the full target and into an empty struct (every field skipped): skipping must succeed and consume exactly everything; 9 projections of a 5-field record (permuted; each of slice/map/nested-record field deleted; only the last field kept; three fields added; nested fields deleted) keep the values of the remaining fields and leave added fields zero",
    "outside": "invalid byte sizes (C06's subject); records of more than 5 fields; fixed. Targets that embed a struct anonymously (a schema field that exists in the target only as a promoted field) are covered by harness C05_embedded, run here too: the sibling fields keep their values",
    "assumptions": A_CORE,
}
P["C05"] = {
    "common": {"validate": 3, "ignore_kinds": ["alloc", "unwind"], "runs": [
        {"pattern": "verifHarness_C05_", "label_filter": "C05:"},
        {"pattern": "verifHarness_C13_", "label_filter": "C05:"},
        {"pattern": "verifHarness_C0304_(width|fit|indir)", "label_filter": "C05:"},
        {"pattern": "verifHarness_C10_bank_step", "label_filter": "C05:"},
        {"pattern": "verifHarness_C06_array_later_block_count", "label_filter": "C05:"}]},
    "thorough": {"validate": 8, "runs": [
        {"pattern": "verifHarness_C10_bank_step", "label_filter": "C05:"},
        {"pattern": "verifHarness_C06_array_later_block_count", "label_filter": "C05:"},
        {"pattern": "verifHarness_C05_", "label_filter": "C05:"},
        {"pattern": "verifHarness_C13_", "label_filter": "C05:"},
        {"pattern": "verifHarness_C0304_", "label_filter": "C05:"},
        {"pattern": "verifHarness_C0102_", "label_filter": "C05:"}]},
    "bounds": "matrix: 26 schemas (null, boolean, int, long, float, double, bytes, string, fixed of size 0/1/4/16, record, enum, array<long>, map<long>, [null,long], [string,null], three general unions, and the bare type names array / map / fixed / record / union without their attributes) x 42 Go kinds (bool, int8..int64, uint..uint64, uintptr, float32/64, complex64/128, string, []byte, [n]byte for n in 0,1,3,4,5,15,16,17, [4]int8, []int64/[]int16/[]int8, [2]int64, map[string]int64/int16, map[int]int64, structs, *int64/*int16, any, chan, func, unsafe.Pointer) x 4 positions (field, pointer, slice element, map value) = 3024 pairs; each pair that builds decodes an encoding of an arbitrary datum of the schema (every value symbolic, full-width ints, a boolean is any wire byte 0..255, strings <= 2, arrays <= 2, maps <= 1) into a struct whose field is surrounded by 2-byte guards plus a sibling field not in the schema; asserted: guards and sibling unchanged, and (engine-implicit, strict heap typing on) every store inside the destination object, pointers only into pointer words and scalars never into them, only 0 or 1 into a bool; building never panics; plus one ResourceBank.Alloc / Close step from an arbitrary bank state satisfying the representation invariant (harness C10_bank_step: the slot handed out lies inside the arena's array)",
    "outside": "that a built decoder stores the *right* value (C03/C13); Go kinds not listed; more than one schema field",
    "assumptions": A_CORE,
}
P["C06"] = {
    "common": {"validate": 4, "max_paths": 150000, "runs": [
        {"pattern": "verifHarness_C06_"},
        {"pattern": "verifHarness_C18_nopanic", "label_filter": "C18:"}]},
    "thorough": {"validate": 12, "max_paths": 1000000},
    "bounds": "(a) record bodies: every byte string of length 0..4 (thorough 0..6) offered to Read and to Skip (empty target struct) of the codecs of 34 catalogue types, of all 18 C05 schemas (alone and as array items) through the skip path, and of 44 (Go kind x position) targets x 18 schemas through the read path; asserted on every path: no panic, every loop within 2n+8 iterations (termination, work proportional to input), every input-controlled allocation <= n+4 elements. (c) single-field mutations of valid encodings: for 5 (thorough 10) schema/target pairs covering every structural varint of the encoding (string / bytes / map-key length, block count, block byte size, nullable and general union selector, terminator), read and skip path, collections sent as two plain or size-prefixed blocks, ONE structural varint replaced by any value in -64..63, any two-byte value, MaxInt64-65535..MaxInt64 or MinInt64..MinInt64+65535; and a later array block declaring ANY int64 count after a block that already produced items. Same assertions. (b) containers: every byte string of length 0..9 (thorough 0..12) as a file, and a valid header of each codec variant (none, null, deflate, snappy, codec entry first) followed by every byte string of length 0..5 (thorough 0..8), with loop bound 2n+40 and input-controlled allocations <= 2n+16. (c) timestamp text: every string of 0..40 bytes through time.StringCodec.Read (C18_nopanic)",
    "outside": "the JSON tokenizer on arbitrary schema text (library code, stubbed); allocation inside the real flate/snappy decoders; arbitrary byte strings longer than the stated lengths (a ten-byte varint does not fit in them: full-width lengths, counts, block sizes and selectors are supplied by the structured harnesses (c) instead, which is how the len+count overflow of a later array block was found)",
    "assumptions": A_CORE + A_FILE + A_TIME,
}
P["C07"] = {
    "common": {"validate": 6, "runs": [{"pattern": "verifHarness_C07_", "label_filter": "C07:"}]},
    "thorough": {"validate": 16},
    "bounds": "files built by the real FileWriter (symbolic 16-byte sync marker, symbolic record values) for layouts {[1],[2,1],[1,1],[0,1]} (thorough more) x {null, deflate, snappy}; damage: the 16 bytes of either block's sync marker replaced by ANY 16 bytes that differ somewhere; the snappy trailer replaced by ANY different 4 bytes; the model decompressor rejecting the block after delivering ANY prefix of its output (natively: every single-bit corruption of the real compressed block that the real decompressor reports); the 4 magic bytes replaced by any different 4 bytes; unknown codec name; missing schema entry; missing codec entry (must read as uncompressed); callback failing at every record index of a 3-record file with a private error, io.EOF, io.ErrUnexpectedEOF or an error wrapping io.EOF (returned unchanged, nothing delivered afterwards); a block whose record count is raised above what its payload holds (all three codecs) is an error",
    "outside": "which corruptions the real inflater / snappy decoder detect (uninterpreted; the property needs 'reported => propagated'); more than 3 blocks",
    "assumptions": A_CORE + A_FILE,
}
P["C08"] = {
    "common": {"validate": 6, "runs": [{"pattern": "verifHarness_C08_", "label_filter": "C08:"}]},
    "thorough": {"validate": 16},
    "bounds": "every cut position 0..len of every file with layout in {[1],[1,1],[0,2]} (thorough: the C07 layouts) x {null, deflate, snappy}, symbolic record values and sync marker; the cut is one decision variable expressed relative to the end of the header / of each block; oracle computed from the layout: records of exactly the blocks whose payload is complete, unmodified; success iff the cut is the end of the header or of a block",
    "outside": "larger files (the behavioural classes - inside magic, metadata, sync, count varint, length varint, payload, block sync - all occur)",
    "assumptions": A_CORE + A_FILE,
}
P["C09"] = {
    "common": {"validate": 6, "runs": [{"pattern": "verifHarness_C09_", "label_filter": "C09:"}]},
    "thorough": {"validate": 16},
    "bounds": "(1) inductive step: from an ARBITRARY encoder state satisfying the invariant (count c in [0,2^40), 0..3 buffered bytes of arbitrary content in a buffer of capacity exact/600/5000, block size B >= 0 arbitrary, nothing buffered iff c == 0, buffered < B when c > 0) one Encode (record of 3-4 bytes) or one Flush: emitted bytes are nothing or exactly one block with count c(+1), payload = buffer (+ record) after decompression, followed by the sync marker; emitted iff (Encode and size reached) or (Flush and c > 0); invariant re-established; all three codecs - histories of any length follow by induction. (2) every history of 1..3 (thorough 1..4) encode/flush calls from a fresh encoder, block size in {0,4,7,100}, checked after every call with a reference block parser; the same histories with records whose encoding is empty (a struct without fields: 'records pending' differs from 'bytes buffered'), block size in {0,100}. The inductive step (1) assumes the invariant 'nothing buffered iff no record pending', which holds only for records of at least one byte; empty records are covered by the histories only",
    "outside": "buffers of more than 3 bytes in the step pre-state (the code never looks at buffer contents)",
    "assumptions": A_CORE + A_FILE,
}
P["C10"] = {
    "common": {"validate": 6, "runs": [{"pattern": "verifHarness_C10_", "label_filter": "C10:"}]},
    "thorough": {"validate": 16},
    "bounds": "(1) allocator step from arbitrary bank states: see harness C10_bank_step (<= 2 type arenas with symbolic fill levels, string store with symbolic length, one Alloc / ToString / Close / Extract with arbitrary arguments): returned block inside a typed array, zeroed, disjoint from every live allocation; earlier strings never rewritten. (2) retained records: 3-block files of every codec, records {string of 2 or 130 bytes, []byte, *int64, []string, map[string]string} with symbolic contents; each callback value is retained, optionally preceded by a reader of the same file that stopped at its first record (its callback released the bank and returned an error); then one of: no bank closed, the first or the second record's bank closed when the next record arrives, every record but the first releasing its own bank inside its callback (a released bank may be recycled for a later record through the pool, every pool outcome explored); asserted: a bank whose record is still live is never handed to another callback, at the end every retained record whose bank is open still holds its values and no string/bytes pointer leads into the reader's buffers. (3) bank histories from a fresh bank: 8 orders of 7 allocations over 4 types (the type table grows while blocks are live), optionally Close and 4 more: every block zeroed, pairwise disjoint, none handed out twice",
    "outside": "the Go allocator and collector themselves; more than 3 records; bank states with more than 2 type arenas",
    "assumptions": A_CORE + A_FILE,
}
P["C11"] = {
    "common": {"validate": 6, "ignore_kinds": ["alloc", "unwind"], "runs": [
        {"pattern": "verifHarness_C11_", "label_filter": "C11:"},
        {"pattern": "verifHarness_C05_(ptr|map|slice)_(mapI64|mapI16|sliceI64|ptrI64|string|bytes|structX|arr4|arr16)", "label_filter": "C05:"}]},
    "thorough": {"validate": 16},
    "bounds": "what is decided: the schedule-independent sufficient condition for GC visibility - the heap the decoder (and encoder) builds is well-typed with respect to the pointer bitmaps of its allocations: every allocation made for a destination slot has the slot's element layout, pointers are stored only into pointer words, scalars never into them, every access stays inside its object (engine: byte-granular objects with a pointer-word shadow, strict mode on every store, typed unsafe_New / unsafe_NewArray / bank arrays / map headers). Explored: 24 target types (maps and slices behind pointers, maps of maps, maps of slices, slices of maps, maps and slices of pointers, nested structs in maps/slices/behind pointers, string and []byte in every position, null.* wrappers in maps and slices, pointer to fixed array under a caller schema), all values within the C01 bounds, decode, re-encode of the decoded value (runtime map iteration through mapiterinit/key/elem/next on a real map header, every iteration order) and decode again; plus the strict-heap C05 matrix rows for pointer/map/slice positions. Natively every replayed value is re-examined after forced collections and same-size-class allocation churn.",
    "outside": "that the mapiter struct matches the runtime's iterator layout, and effects of a concurrently running collector on iteration: facts about the Go runtime, not encodable from the repository's SSA (the engine only checks that the iterator memory handed to the runtime is at least as large as the runtime's iterator)",
    "assumptions": A_CORE,
}
P["C12"] = {
    "common": {"validate": 4, "ignore_kinds": ["alloc", "unwind"], "race": True, "runs": [{"pattern": "verifHarness_C12_", "label_filter": "C12:"}]},
    "thorough": {"validate": 12},
    "bounds": "what is decided: interleavings are not explored; the claim is discharged through the ownership / lockset theorem. For all inputs within the bounds, each operation - decode through a shared codec tree into private memory (with the pool handing out a fresh or a recycled bank; one catalogue struct, and every codec kind of the C05 schema list - null, primitives, fixed, record, enum, array, map, nullable and general unions - as a field, behind a pointer, as array items and as map values, 8 target shapes), encode through a shared codec tree, Schema.Codec and SchemaForType (registry lookups), Register / RegisterSchema (first and repeated registration), ReadFile of a 2-record file of every codec, Close of a bank handed over from elsewhere, parsing a timestamp with an arbitrary numeric zone offset (zone cached or not) - (i) stores only into memory it allocated or was handed (sync.Pool.Get hands over), (ii) only reads shared codec trees and package globals, (iii) touches registry / schemaRegistry / tzMap (map header and value cells) only while holding the guarding mutex, in write mode for stores. Under these three facts any two operations are race-free under every schedule and each computes a function of its private inputs and the registry contents, which the harnesses also compare with the sequential result.",
    "outside": "sync/atomic accesses are exempt from the store rule; for them only the lost-update pattern is decided (an atomic pointer Store/Swap into a shared location from which the same operation earlier atomically loaded a non-nil pointer, with no lock held and no compare-and-swap); sync.Map is a sequential association-list model; races inside the standard library, sync.Pool, snappy or flate; result-equivalence under concurrent registration of the same type (not independent operations); native replay: the operation runs on two goroutines at once under the race detector (go test -race), whose happens-before analysis confirms an unsynchronised pair without timing luck; a finding the detector does not report stays engine-level (UB-class)",
    "assumptions": A_CORE + A_FILE + A_TIME,
}
P["C13"] = {
    "common": {"validate": 6, "ignore_kinds": ["alloc", "unwind"], "runs": [{"pattern": "verifHarness_C13_", "label_filter": "C13:"}, {"pattern": "verifHarness_C19_", "label_filter": "C19:"}]},
    "thorough": {"validate": 16},
    "bounds": "57 (caller-written schema, covering Go type) pairs: long and int x int/int16/int32/int64 (full-width values within the schema's range), float/double x float32/float64, unions with null second (and first) over pointers, omitempty fields, plain fields, null.* wrappers, bool/bytes/string/float32; fixed of size 0/4/16 with [n]byte; arrays and maps with int/float items and null-second nullable items; null.Int under long/int, null.Float under double/float, pointer to null.Int, arrays of null.Int; logical date / timestamp types over time.Time and *time.Time (harnesses C19_*, same engine run); for each pair that builds: the bytes written decode under the caller's schema with the reference decoder to the expected datum with nothing left over, and the library reads them back to the original value",
    "outside": "nested records deeper than 2; schemas outside the enumerated family",
    "assumptions": A_CORE + A_TIME,
}
P["C16"] = {
    "common": {"validate": 6, "runs": [{"pattern": "verifHarness_C16_", "label_filter": "C16:"}]},
    "thorough": {"validate": 16},
    "bounds": "the writer fails on its k-th Write for every k in 0..(1+4*ops) over every history of 1..2 (thorough 1..3) encode/flush calls plus the final flush, block size in {0,3}, all three codecs (header write, the four writes of every block); FileWriter.WriteHeader / WriteBlock directly with a fault at every write index; asserted: the call that triggered the failed write returns a non-nil error for which errors.Is(err, injected) holds, no panic, no write is attempted after the failed one, and the accepted bytes are a prefix of the fault-free twin's output re-marked with the same sync marker",
    "outside": "short writes with a nil error (outside io.Writer's contract)",
    "assumptions": A_CORE + A_FILE,
}
P["C17"] = {
    "common": {"validate": 12}, "thorough": {"validate": -1},
    "bounds": "values: none (all int64 / int32 / int16 values, all float32 / float64 bit patterns, symbolic); candidate varint buffers: every byte string of length 0..11; loop unwinding 64 (varint loops need at most 11, checked by the unwinding assertion)",
    "outside": "buffers longer than 11 bytes as a single varint (the eleventh byte already decides); NaN payloads through float32<->float64 conversion follow the amd64/arm64 quieting rule",
    "assumptions": A_CORE[:2] + A_CORE[4:5],
}
P["C18"] = {
    "common": {"validate": 12, "runs": [{"pattern": "verifHarness_C18_", "label_filter": "C18:|REF:"}]},
    "thorough": {"validate": 40},
    "bounds": "(a) every string of 0..40 bytes through the public path (time.StringCodec.Read): no panic, nothing written outside the destination. (b) every string of the grammar YYYY-MM-DD | YYYY-MM-DDTHH:MM:SS[(.|,)d{1..14}](Z|(+|-)HH:MM) (thorough: up to 18 fraction digits) whose fields are in the ranges time.Parse accepts (year 0000-9999, month 1-12, day 1-28 or 29-30/31 by month outside February, hour <= 23, minute/second <= 59, zone <= 23:59), every digit a solver variable: accepted, same instant and same UTC offset as time.Date on those fields (nanoseconds = first nine fraction digits). Natively every replayed string is also pushed through time.Parse, which must accept it with the same instant and offset (oracle validation)",
    "outside": "29 February; leap seconds; the clause 'formatting with nanosecond precision and parsing back is the identity' is covered only through the assumption that Time.Format(RFC3339Nano) emits a string of grammar (b), which (b) then parses back to the same fields",
    "assumptions": A_CORE + A_TIME,
}
P["C19"] = {
    "common": {"validate": 6, "timeout_ms": 60000, "runs": [{"pattern": "verifHarness_C19_", "label_filter": "C19:"}]},
    "thorough": {"validate": 16},
    "bounds": "date read: every int32 day count; long read: every long l with |l*unit| < 2^63 for unit in {10^6 (timestamp-millis), 10^3 (timestamp-micros), 1 (plain long = nanoseconds)}: the decoded time's UnixNano is exactly l*unit, normalised, UTC; date write: every instant with |unix seconds| <= 2^24 (thorough 2^32, about +-136 years), any nanosecond: the stored integer n satisfies n*86400 <= sec < (n+1)*86400 (floor, also before 1970) and reads back as midnight of day n; long write: same instants, the stored integer is sec*units_per_second + nsec/unit (floor). Round trip of the long types follows by composition (Write stores floor(t/unit); every n decodes to n*unit). The written time is presented in UTC or in a fixed zone with an arbitrary offset of up to +-14 h (the stored integer depends on the instant only). A time field under [null, T] for T in {timestamp-millis, timestamp-micros, plain long, date}: every non-zero instant in three windows of 2^20 s (around the epoch, and at either end of the int64-nanosecond range, 1677 and 2262) is written as the non-null branch followed by exactly what the plain codec writes. Time-model validation: 24 boundary dates x 4 zone offsets through time.Date and every accessor, each observed value compared with the native standard library",
    "outside": "write direction beyond +-2^24 s (quick) / +-2^32 s (thorough; 2^36 ran clean before the written time was given an arbitrary zone, with it z3 4.8.12 answers unknown on one path while z3 5.1 decides it - registered bound reduced) of the epoch: wider ranges make the bit-blasted multiplications and divisions by 86400 and 10^k time out in z3, z3-new and cvc5 (60 s); the direct long round-trip query is replaced by the composition above",
    "assumptions": A_CORE[:2] + A_TIME,
}

P["C14"] = {
    "common": {"validate": 40, "max_paths": 250000, "runs": [{"pattern": "verifHarness_C14_", "label_filter": "C14:"}]},
    "thorough": {"validate": 200, "max_paths": 2000000},
    "bounds": "NARROW CLAIM: only the repository's hand-written JSON layer (Schema.MarshalJSONTo, Schema.UnmarshalJSONFrom) is decided, executed for real against a token-level contract model of go-json-experiment/json (jsontext.Encoder = token recorder, jsontext.Decoder = token cursor, json.MarshalEncode / UnmarshalDecode walk Go values by the struct tags of the CURRENT source with v2 omitempty, unknown members ignored, duplicate names rejected, and call back into the real methods). Schema family: every type name (plain primitive; long/int with logicalType; fixed with name, namespace and an arbitrary symbolic size; enum with and without symbols; record with 0..2 fields in either order; array; map; unions [X], [null,X], [X,null], [null,X,string]), nested to depth 2 (thorough 3), each composite with one freely chosen child. For every schema: MarshalJSONTo succeeds, its token stream is one well-formed JSON value (balanced, name/value pairs, distinct names), and UnmarshalJSONFrom of that stream - as emitted, with the members of every object in reverse order, and with unknown attributes (doc, aliases, default) inserted into every object - yields an identical schema and consumes the whole stream. The model is validated on every run: the sampled schemas are pushed through the real library natively (json.Marshal, text re-ordered / extended with jsontext, SchemaFromString) and must give the same outcomes.",
    "outside": "everything decided inside the library: whitespace and text layout, escaping, rejection of malformed JSON text, number syntax; key-order and unknown-attribute independence hold by the model's (validated) contract of the library plus the real hoisting code in UnmarshalJSONFrom; schemas deeper than the bound or with several free children per composite",
    "assumptions": A_CORE[:2] + ["token-level contract model of github.com/go-json-experiment/json (engine/jsonmodel.go), validated natively against the real library on every run"],
}
P["C15"] = {
    "common": {"validate": 100, "runs": [{"pattern": "verifHarness_C15_", "label_filter": "C15:"}]},
    "thorough": {"validate": -1},
    "bounds": "symbolic type descriptors: reflect.Type values whose Kind is a solver variable over all 26 reflect kinds and whose structure is decided by forking: (single) a struct with 0..1 fields, 7 tag shapes (none, name, name+omitempty, '-', bq:\"-\", ',omitempty', name+other options+omitempty with another bq tag), exported or not, up to 3 further type nodes below the field (thorough 4); (pair) a struct with 0..2 fields, 2 tag shapes, up to 2 further nodes (thorough 3), the second field may reuse the first field's type node; element edges of pointers/slices/maps/chans may point to any node (cycles, sharing), array elements and struct fields only forward; map keys range over the comparable basic kinds; one node may be registered with a plain or an already-nullable schema. For every such type: schemaForType's result equals the reference transcription of the documented mapping (or both fail), is deterministic, has no union directly inside a union, no repeated branch, every named record defined once, and buildCodec on it returns a codec or an error. Concrete: the same check on all 105 catalogue struct types and 8 special shapes (same struct twice, embedded struct, uint/chan/interface/complex/func fields, Go arrays), natively replayed (validates the reflect model and the reference); self-referential concrete types (engine only).",
    "outside": "types of more than 5 nodes; more than 2 fields per struct; embedded (anonymous) fields in symbolic descriptors; named non-struct types; tag strings outside the 7 shapes (nameForField / omitEmpty on arbitrary tag text go through reflect.StructTag.Get, which is computed natively on concrete tags only)",
    "assumptions": A_CORE,
}
P["C20"] = {
    "common": {"validate": 6, "ignore_kinds": ["alloc", "unwind"], "runs": [
        {"pattern": "verifHarness_C20_", "label_filter": "C20:"},
        {"pattern": "verifHarness_C0102_(null(leaf|omit|slice|map)|time(leaf|omit))", "label_filter": "C0[12]:"},
        {"pattern": "verifHarness_C0102_(nullptr|timeptr)", "label_filter": "C02:"}]},
    "thorough": {"validate": 16, "runs": [
        {"pattern": "verifHarness_C0102_(nullptr|timeptr)", "label_filter": "C02:"},
        {"pattern": "verifHarness_C20_", "label_filter": "C20:"},
        {"pattern": "verifHarness_C0102_(null(leaf|omit|slice|map)|time(leaf|omit)|x_time)", "label_filter": "C0[12]:"}]},
    "bounds": "three user-defined custom types (a struct, a named int64, a named []byte) registered through the real Register / RegisterSchema with codecs whose wire form starts with a marker byte; positions: field, pointer, slice element, map value, omitempty field, field of a nested struct and of a pointer-to-struct, each next to a structurally identical UNREGISTERED twin type; both registration orders (marker A then B, B then A: the latest must win); asserted for all values (full-width ints, byte strings 0..2): SchemaForType emits exactly the registered schema at the custom positions and the default mapping for the twin; the reference decoder finds the latest marker encoding exactly at the custom-typed values and the default encoding elsewhere; values round-trip; skipping consumes everything. The library's own registrations (null.Int/Bool/Float/String) are run in the positions field, omitempty, slice element and map value (catalogue harnesses shared with C01/C02); the library's own registered types twice each behind pointers in one record (*null.Time, *null.Int, *null.String x 2, every nil pattern): each value comes back in its own storage",
    "outside": "**T and pointers to zero / invalid values (C01 known findings; the *null.X and *time.Time harnesses are run for their encoding and for engine-level memory safety of the registered codecs' New/Read only)",
    "assumptions": A_CORE,
}

for pid in ("C07", "C08", "C09", "C10", "C16", "C17", "C18", "C19", "C12", "C13", "C14", "C20"):
    P[pid].setdefault("thorough", {})["cross_solver"] = "z3-new"
# The catalogue-sized properties: the deeper harness bounds (verifThorough) were not run to completion on this
# machine within 50 minutes per property, so they are not registered. Their thorough tier explores the same
# bounded space as the quick tier, replays more paths natively and re-decides everything with a second solver.
for pid in ("C01", "C02", "C03", "C04", "C05", "C06", "C11", "C14", "C15", "C20"):
    th = P[pid].setdefault("thorough", {})
    th["deep_bounds"] = False
    # the harnesses with time.Time values make z3 5.1 run away on single queries (23 minutes observed,
    # soft limit ignored), so the properties that include them are not re-decided with it
    if pid in ("C01", "C02", "C20"):
        th.pop("cross_solver", None)
    else:
        th["cross_solver"] = "z3-new"
    th.pop("runs", None)
    if "max_paths" in P[pid].get("common", {}):
        th["max_paths"] = P[pid]["common"]["max_paths"]
    P[pid]["thorough_note"] = "thorough tier = the quick tier's bounds, more paths replayed natively and (except C01, C02, C20, whose time-valued harnesses make z3 5.1 run away) every query re-decided by z3 5.1 and the verdicts diffed; the deeper bounds written into the harnesses (verifThorough) did not finish within 50 minutes per property on this machine and are not registered"

json.dump(P, open(os.path.join(V, "props.json"), "w"), indent=1)
print("properties configured:", sorted(P))
